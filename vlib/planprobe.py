"""Probe of NLDFSplinePlan tables with non-default options (spline_size != nalpha, raise_large_expnt_error=False,
use_smooth_expnt_cutoff=True, both exponent formulas and coefficient orders).

Oracles (exponents are set through the density alone: grad_mul = tau_mul = 0, so a = B rho^(2/3)):
 index_in_table   the interpolation argument lies in [0, spline_size - 1)
 clip_continuity  for plans that do not raise, coefficients at and above alpha_max equal the coefficients just below it
                  and their exponent derivative is zero beyond the bound; likewise at the lower end
 coarse_vs_dense  coefficients of a plan agree with those of the same plan tabulated 6x denser, inside the range, to the
                  cubic-spline error (calibrated), and finitely everywhere
Used by C18 (also under ASan: an index outside the table is an out-of-bounds read) and C08.
"""
import numpy as np


def _settings(rng):
    from ciderpress.dft import settings as st
    a0 = float(rng.uniform(0.8, 3.0))
    return st.NLDFSettingsVJ("GGA", [a0, 0.0], "one", ["se", "se_ar2"],
                             [[float(rng.uniform(0.8, 3.0)), 0.0], [float(rng.uniform(0.8, 3.0)), 0.0]])


def _rho_for_exponent(a, a0, nspin):
    B = np.pi / 2 ** (2.0 / 3) * a0 if nspin == 1 else np.pi * a0
    return (np.asarray(a) / B) ** 1.5


def _coefs(plan, a, i, nspin):
    st = plan.nldf_settings
    a0 = st.theta_params[0] if i == -1 else st.feat_params[i][0]
    rho = np.ascontiguousarray(_rho_for_exponent(a, a0, nspin))
    sigma = np.zeros_like(rho)
    arg, darg = plan.get_interpolation_arguments((rho, sigma), i=i)
    p, dp = plan.get_interpolation_coefficients(np.ascontiguousarray(arg), i=i)
    if plan.coef_order == "qg":
        p, dp = p.T, dp.T
    return np.asarray(arg), np.array(p), np.array(dp), darg


def probe(rec, rng, tagprefix="splineplan"):
    from ciderpress.dft.plans import NLDFSplinePlan
    settings = _settings(rng)
    nspin = int(rng.integers(1, 3))
    formula = str(rng.choice(["etb", "zexp"]))
    order = str(rng.choice(["gq", "qg"]))
    lambd = float(rng.choice([1.6, 1.8, 2.0]))
    nalpha = int(rng.choice([12, 17, 24]))
    alpha0 = float(rng.choice([0.003, 0.01, 0.05]))
    size_kind = str(rng.choice(["default", "equal", "larger", "much-larger", "smaller"]))
    ssize = {"default": None, "equal": nalpha, "larger": nalpha + int(rng.integers(1, 9)), "much-larger": 3 * nalpha + 7,
             "smaller": max(4, nalpha - int(rng.integers(1, nalpha // 2)))}[size_kind]
    guard = str(rng.choice(["raise", "no-raise", "smooth"]))
    kw = dict(coef_order=order, alpha_formula=formula, spline_size=ssize,
              raise_large_expnt_error=(guard == "raise"), use_smooth_expnt_cutoff=(guard == "smooth"))
    plan = NLDFSplinePlan(settings, nspin, alpha0, lambd, nalpha, **kw)
    cfg = "%s,%s,size=%s,%s" % (formula, order, size_kind, guard)
    rec.tag(tagprefix + "_config", cfg)
    amax = float(np.max(plan.alphas))
    amin = float(np.min(plan.alphas[plan.alphas > 0])) if np.any(plan.alphas > 0) else alpha0
    size = plan._spline_size
    mech = "NLDFSplinePlan[size=%s,%s]" % (size_kind, guard)
    inside = np.exp(rng.uniform(np.log(amin * 1.05), np.log(amax * 0.98), size=60))
    for i in range(-1, settings.num_feat_param_sets):
        arg, p, dp, _ = _coefs(plan, inside, i, nspin)
        rec.require("index_in_table", bool(np.all(arg >= 0) and np.all(arg < size - 1 + 1e-9)), mechanism=mech + ":index-outside-table",
                    detail={"config": cfg, "max_arg": float(np.max(arg)), "size": size})
        ok = bool(np.all(np.isfinite(p)) and np.all(np.isfinite(dp)))
        rec.require("coefficients_finite", ok, mechanism=mech + ":nonfinite")
        # partition-of-unity-like sanity of the table inside the range: coefficients bounded by the table's own extrema
        tab = np.asarray(plan._alpha_transform[i])
        tmax = float(np.max(np.abs(tab[..., 0]))) if tab.ndim == 3 else float(np.max(np.abs(tab)))
        rec.check("coefficients_within_table_range", float(np.max(np.abs(p))) / max(tmax, 1e-300), 3.0,
                  mechanism=mech + ":coefficients-outside-table-range", detail={"config": cfg, "i": i})
        if guard != "raise":
            above = np.array([amax * 1.0000001, amax * 1.3, amax * 7.0, amax * 1e3])
            if guard == "smooth":
                # the smoothed exponent saturates to alpha_max only well above the bound: compare saturated points
                above = np.array([amax * 7.0, amax * 50.0, amax * 1e3, amax * 1e6])
                ref_a = np.array([amax * 5.0])
            else:
                ref_a = np.array([amax * (1 - 1e-12)])
            if guard == "smooth":
                # the smoothed exponent itself: its returned density derivative is the derivative of the returned value, and
                # points whose raw exponent is far above the bound (saturated) carry no derivative at all
                a0 = settings.theta_params[0] if i == -1 else settings.feat_params[i][0]
                araw = amax * np.exp(rng.uniform(np.log(0.05), np.log(30.0), size=80))
                rho = np.ascontiguousarray(_rho_for_exponent(araw, a0, nspin))
                sig = np.zeros_like(rho)
                h = 1e-5
                a_s, d_s = plan.eval_feat_exp((rho.copy(), sig.copy()), i=i)
                a_s, dn = np.array(a_s), np.array(d_s[0])
                ap = np.array(plan.eval_feat_exp((rho * (1 + h), sig.copy()), i=i)[0])
                am = np.array(plan.eval_feat_exp((rho * (1 - h), sig.copy()), i=i)[0])
                fd = (ap - am) / (2 * h * rho)
                rawd = (2.0 / 3.0) * araw / rho
                rec.check("smooth_cutoff_exponent_derivative", float(np.max(np.abs(dn - fd) / rawd)), 1e-6,
                          mechanism=mech + ":exponent-derivative", detail={"config": cfg, "i": i})
                satd = araw > 3.0 * amax
                if satd.any():
                    rec.check("smooth_cutoff_saturated_points_inert", float(np.max(np.abs(dn[satd]) / rawd[satd])), 1e-9,
                              mechanism=mech + ":saturated-exponent-derivative-nonzero", detail={"config": cfg, "i": i})
                    rec.check("smooth_cutoff_saturated_value", float(np.max(np.abs(a_s[satd] / amax - 1))), 1e-9,
                              mechanism=mech + ":saturated-exponent-value", detail={"config": cfg, "i": i})
            _, p0, dp0, _ = _coefs(plan, ref_a, i, nspin)
            arga, pa, dpa, darg = _coefs(plan, above, i, nspin)
            rec.require("index_in_table", bool(np.all(arga >= 0) and np.all(arga < size - 1 + 1e-9)),
                        mechanism=mech + ":index-outside-table", detail={"config": cfg, "above_alpha_max": True, "max_arg": float(np.max(arga))})
            sc0 = max(float(np.max(np.abs(p0))), 1e-300)
            rec.check("clip_continuity[upper]", float(np.max(np.abs(pa - p0))) / sc0, 1e-3,
                      mechanism=mech + ":coefficients-beyond-alpha_max", detail={"config": cfg, "i": i})
            rec.require("clip_finite[upper]", bool(np.all(np.isfinite(pa)) and np.all(np.isfinite(dpa))), mechanism=mech + ":nonfinite-beyond-alpha_max")
        # lower end: exponents below the smallest interpolating exponent never raise
        below = np.array([amin * 0.5, amin * 1e-3, amin * 1e-8])
        argb, pb, dpb, _ = _coefs(plan, below, i, nspin)
        rec.require("index_in_table", bool(np.all(argb >= 0) and np.all(argb < size - 1 + 1e-9)), mechanism=mech + ":index-outside-table",
                    detail={"config": cfg, "below_range": True})
        rec.require("clip_finite[lower]", bool(np.all(np.isfinite(pb)) and np.all(np.isfinite(dpb))), mechanism=mech + ":nonfinite-below-range")
    rec.nontrivial("%s|%d|%d|%g" % (cfg, nspin, nalpha, lambd))
    return cfg
