"""C07 - spin-polarised and unpolarised evaluations agree; spin labels are symmetric.

Differential execution at three levels (DESIGN.md section 5, C07):
 e2e    nr_uks((dm/2, dm/2)) vs nr_rks(dm); nr_uks((a, b)) vs nr_uks((b, a)); SEP separability
        E[na, nb] = (E[2 na] + E[2 nb]) / 2 and v_a[na, nb] = v_rks[2 na]
 model  MappedXC / MappedXC2 __call__ with nspin 1 vs 2 (duplicated channels), swap of channels
 layer  SemilocalPlan.get_feat / get_vxc, get_cider_exponent(_gga) nspin branches, native baselines
"""
import numpy as np

from vlib.oracles import relerr, rng_for

PROPERTY = "C07"
PROP_NO = 7
RULE = ("e2e case = (feature family, molecule, basis, level, plan, interpolator, spin mode, evaluator, mixing, model "
        "class) with a random synthetic model and random admissible density matrices (closed-shell for the "
        "polarised==unpolarised identity; independent up/down matrices incl. a fully polarised one for swap and "
        "separability); non-trivial when the ML share of the energy is >= 1e-3 and the spin-polarised reference "
        "differs from a wrongly spin-scaled one (|E_rks(dm) - E_rks(2 dm_a)| > 1e-6); model/layer cases use random "
        "admissible pointwise data; distinct = distinct configuration x relation")
MIN_NONTRIVIAL = {"quick": 60, "thorough": 600}
ASSUMPTIONS = ["tolerance 1e-10 x scale: same arithmetic up to factor-of-two scalings and summation order "
               "(measured floor 4e-13 end to end)",
               "separability is claimed (and checked) for SEP-mode models with an exchange-like semilocal part only"]
TOL_E2E = TOL = 1e-8      # end to end: regularisers (+1e-16, rhocut) are not exactly spin-scaling covariant; floor 3e-10
TOL_M = 1e-10   # model level (pure arithmetic on identical numbers)
TOL_L = 1e-8    # layer level: s2/alpha carry +1e-16-type regularisers (floor 1e-10 at rho ~ 1e-6)

SL = ["sl-nst", "sl-npa", "sl-ns", "sl-np"]
NL = ["vj-mgga", "vj-gga", "vi-mgga", "vi-gga", "vij-mgga", "vk-mgga", "vk-gga", "vj-nst", "vj-expnt"]
SX = ["sdmx", "sdmxg", "sdmx1", "sdmxg1", "vj+sdmx"]


def gen_cases(tier, seed):
    rng = rng_for(seed, PROP_NO, 0)
    cases = []
    reps = 2 if tier == "quick" else 12
    i = 0
    for rep in range(reps):
        for fam in SL + NL + SX:
            c = dict(family=fam)
            c["mol"] = str(rng.choice(["H2O", "HF", "LiH", "NH3", "H2O2"]))
            c["basis"] = str(rng.choice(["6-31g", "sto-3g", "def2-svp"], p=[0.6, 0.2, 0.2]))
            c["level"] = int(rng.integers(0, 2))
            c["mode"] = str(rng.choice(["SEP", "NPOL", "POL"], p=[0.5, 0.25, 0.25]))
            c["evaluator"] = str(rng.choice(["rbf", "kernel", "linear"], p=[0.6, 0.2, 0.2]))
            c["mix"] = str(rng.choice(["pure", "xmix", "xc", "mgga"], p=[0.4, 0.3, 0.15, 0.15]))
            if fam in ("sl-ns", "sl-np", "vj-gga", "vi-gga", "vij-gga", "vk-gga") and c["mix"] == "mgga":
                c["mix"] = "xmix"
            if fam in NL or fam == "vj+sdmx":
                c["plan_type"] = str(rng.choice(["gaussian", "spline"]))
                c["interp"] = str(rng.choice(["onsite_direct", "onsite_spline"]))
            c["model"] = "xc1"
            if rng.random() < 0.25 and fam in ("sl-npa", "vj-mgga", "sdmx", "sl-nst"):  # MappedXC2 needs MGGA-level data in eval_xc_cider
                c["model"] = "xc2"
                c["mode"] = str(rng.choice(["SEP", "NPOL"]))
                if c["mode"] == "SEP":
                    c["mul_base"] = str(rng.choice(["GGA_X_PBE", "LDA_X"]))
                else:
                    c["mul_base"] = "GGA_C_PBE"
                    c["add_base"] = "GGA_C_PBE"
            nl = fam in NL or fam == "vj+sdmx"
            # other kinds of system for the same molecule (vlib.gen.vary_system): Cartesian functions (not for SDMX, which
            # refuses them), an extra f shell, Bohr input
            sk = [None, None, "cart", "fshell", "bohr"][i % 5]
            if sk == "cart" and "sdmx" in fam:
                sk = "fshell"
            if sk:
                c["system"] = sk
            cases.append({"id": "e2e-%03d-%s" % (i, fam), "kind": "e2e", "cfg": c, "seed": seed, "idx": 100 + i,
                          "_threads": 2, "_weight": 4.0 if nl else 1.0, "_timeout": 1500})
            i += 1
    # several libxc-backed kernels of different spin modes / baselines in ONE MappedXC2 (they share the potential tuple)
    for j in range(3 if tier == "quick" else 16):
        c = dict(family=["sl-npa", "vj-mgga", "sl-nst", "sdmx"][j % 4], mol=["H2O", "HF", "NH3", "LiH"][j % 4], basis="6-31g",
                 level=j % 2, mode="SEP", evaluator=["rbf", "kernel"][j % 2], mix=["pure", "xmix"][(j // 2) % 2], model="xc2m",
                 mul_base="GGA_X_PBE", order=[["c", "x"], ["x2", "x"], ["c", "x", "x2"], ["x", "c"]][j % 4])
        if c["family"] == "vj-mgga":
            c["plan_type"], c["interp"] = "gaussian", "onsite_direct"
        cases.append({"id": "e2e-%03d-%s-multikernel" % (i, c["family"]), "kind": "e2e", "cfg": c, "seed": seed, "idx": 100 + i,
                      "_threads": 2, "_weight": 4.0 if c["family"] == "vj-mgga" else 1.0, "_timeout": 1500})
        i += 1
    nm = 24 if tier == "quick" else 240
    for j in range(nm):
        cases.append({"id": "model-%03d" % j, "kind": "model", "seed": seed, "idx": 5000 + j, "_threads": 1})
    nl_ = 16 if tier == "quick" else 160
    for j in range(nl_):
        cases.append({"id": "layer-%03d" % j, "kind": "layer", "seed": seed, "idx": 8000 + j, "_threads": 1})
    return cases


def run_case(case, rec):
    rng = rng_for(case["seed"], PROP_NO, case["idx"])
    if case["kind"] == "e2e":
        _e2e(case, rec, rng)
    elif case["kind"] == "model":
        _model(case, rec, rng)
    else:
        _layer(case, rec, rng)


def _e2e(case, rec, rng):
    from vlib import gen
    cfg = dict(case["cfg"])
    for k in ("family", "mol", "basis", "level", "mode", "evaluator", "mix", "plan_type", "interp", "model"):
        if cfg.get(k) is not None:
            rec.tag(k, cfg[k])
    mol = gen.make_mol(cfg["mol"], cfg["basis"], rng, jitter=0.03)
    sysk = cfg.pop("system", None)
    if sysk:
        mol = gen.vary_system(mol, sysk)
        rec.tag("system", sysk)
    model = gen.build_model(cfg, rng)
    cfg_r = dict(cfg, spin="rks")
    cfg_u = dict(cfg, spin="uks")
    _, _, ksr = gen.build_ks(cfg_r, rng, mol=mol, model=model)
    _, _, ksu = gen.build_ks(cfg_u, rng, mol=mol, model=model)
    fam = cfg["family"]
    tagm = "%s,%s,%s" % (fam, cfg["mode"], cfg["model"])
    # libxc-backed parts (MappedXC2 baselines, semilocal mixing functionals) go through libxc's separate unpolarised and
    # polarised code paths with its own density thresholds: 5e-10 absolute on |v| = 0.025 observed in the thorough tier
    # (2.2e-8 relative), so those cases get 1e-7; purely native models keep 1e-8.  Seeded changes give >= 1e-3.
    TOL = TOL_E2E if (cfg["model"] == "xc1" and cfg.get("mix", "pure") == "pure") else 10 * TOL_E2E
    # --- 1. closed shell through both paths
    dm = gen.psd_dm(mol, rng, 1)
    nr, er, vr = gen.nr_eval(ksr, dm)
    nu, eu, vu = gen.nr_eval(ksu, np.stack([dm / 2, dm / 2]))
    # natural scales: |E_xc| is 0.5-1 Ha per electron; a model whose parts nearly cancel (|E| = 0.011 Ha observed, thorough
    # tier) must not turn the 1e-10 Ha regulariser floor into a relative 2e-8 (false alarm corrected)
    escale = max(abs(er), 0.02 * mol.nelectron)
    vscale = max(float(np.max(np.abs(vr))), 0.02)
    rec.check("e2e_rks_vs_uks_energy", abs(er - eu) / escale, TOL, mechanism="rks!=uks:energy[%s]" % tagm,
              detail={"E_rks": float(er), "E_uks": float(eu)})
    rec.check("e2e_rks_vs_uks_vmat", max(np.max(np.abs(vu[0] - vr)), np.max(np.abs(vu[1] - vr))) / vscale, TOL,
              mechanism="rks!=uks:vmat[%s]" % tagm)
    rec.check("e2e_nelec", abs(nu[0] + nu[1] - nr) / abs(nr), 1e-12, mechanism="rks!=uks:nelec")
    # the same integrator in the other spin mode (what rks.to_uks() / uks.to_rks() hand over: the converted object shares
    # _numint): polarised and unpolarised evaluations must still agree - added after a seeded spin factor frozen at the first
    # evaluation of a shared SDMX plan
    dmu_c = np.stack([dm / 2, dm / 2])
    n2, e2_, v2_ = ksr._numint.nr_uks(mol, ksr.grids, ksr.xc, dmu_c)
    rec.check("e2e_shared_integrator[rks-then-uks]", max(abs(float(e2_) - float(er)) / escale,
                                                        float(max(np.max(np.abs(v2_[0] - vr)), np.max(np.abs(v2_[1] - vr)))) / vscale), TOL,
              mechanism="rks!=uks:shared-integrator[%s]" % tagm, detail={"E_rks": float(er), "E_uks_same_integrator": float(e2_)})
    n3, e3_, v3_ = ksu._numint.nr_rks(mol, ksu.grids, ksu.xc, dm)
    rec.check("e2e_shared_integrator[uks-then-rks]", max(abs(float(e3_) - float(er)) / escale, float(np.max(np.abs(v3_ - vr))) / vscale), TOL,
              mechanism="rks!=uks:shared-integrator[%s]" % tagm, detail={"E_rks": float(er), "E_rks_on_uks_integrator": float(e3_)})
    ni = ksr._numint
    xm = ni.xmix
    ni.xmix = 0.0
    e0 = gen.nr_eval(ksr, dm)[1]
    ni.xmix = xm
    ml_share = abs(er - e0) / max(abs(er), 1e-300)
    # --- 2. swap of spin labels (independent channels; every 3rd case fully polarised)
    dmu = gen.psd_dm(mol, rng, 2)
    if case["idx"] % 3 == 0:
        dmu[1] *= 0.0
        rec.tag("polarisation", "full")
    else:
        dmu[1] *= 0.7
        rec.tag("polarisation", "partial")
    n1, e1, v1 = gen.nr_eval(ksu, dmu)
    n2, e2, v2 = gen.nr_eval(ksu, dmu[::-1].copy())
    rec.require("e2e_finite", np.all(np.isfinite(v1)) and np.isfinite(e1), mechanism="uks:nonfinite[%s]" % tagm)
    rec.check("e2e_swap_energy", abs(e1 - e2) / max(abs(e1), 0.02 * mol.nelectron), TOL, mechanism="spin-swap:energy[%s]" % tagm,
              detail={"E_ab": float(e1), "E_ba": float(e2)})
    v1 = np.asarray(v1)
    v2 = np.asarray(v2)
    if np.any(dmu[1]):
        dswap = np.max(np.abs(v1 - v2[::-1])) / max(float(np.max(np.abs(v1))), 0.02)
    else:
        # Fully polarised: the potential of the exactly empty channel is ill-conditioned for POL-mode NLDF models
        # (measured: a 1e-13 relative change of dm moves it by 4e-3 relative; cutoff-clamped 1/rho^n factors), so
        # only the occupied channel is decided; the empty channel is recorded and must be finite.
        dswap = np.max(np.abs(v1[0] - v2[1])) / max(float(np.max(np.abs(v1[0]))), 0.02)
        rec.note("empty_channel_swap_asymmetry", float(np.max(np.abs(v1[1] - v2[0])) / max(float(np.max(np.abs(v1[1]))), 1e-300)))
    rec.check("e2e_swap_vmat", dswap, TOL, mechanism="spin-swap:vmat[%s]" % tagm)
    nontrivial_swap = abs(np.max(np.abs(v1[0] - v1[1]))) > 1e-6 * max(1.0, float(np.max(np.abs(v1[0]))))
    # --- 3. separability (SEP models, exchange-like semilocal part only)
    sep_ok = cfg["mode"] == "SEP" and cfg["mix"] == "pure" and cfg["model"] == "xc1"
    if sep_ok:
        na_, ea, va = gen.nr_eval(ksr, 2 * dmu[0])
        if np.any(dmu[1]):
            nb_, eb, vb = gen.nr_eval(ksr, 2 * dmu[1])
        else:
            eb, vb = 0.0, None
        rec.check("e2e_separability_energy", abs(e1 - 0.5 * (ea + eb)) / max(abs(e1), 0.02 * mol.nelectron), TOL,
                  mechanism="separability:energy[%s]" % tagm, detail={"E_ab": float(e1), "E_2a": float(ea), "E_2b": float(eb)})
        rec.check("e2e_separability_vmat", np.max(np.abs(v1[0] - va)) / max(float(np.max(np.abs(va))), 0.02), TOL,
                  mechanism="separability:vmat[%s]" % tagm)
        rec.tag("separability", "checked")
    # non-triviality: a wrong spin scaling would be visible
    e_wrong = gen.nr_eval(ksr, dm / 2)[1]
    if ml_share >= 1e-3 and abs(er - 2 * e_wrong) > 1e-6 * abs(er):
        rec.nontrivial("rks_vs_uks")
        if nontrivial_swap:
            rec.nontrivial("swap")
        if sep_ok:
            rec.nontrivial("separability")
    rec.set_sample({"cfg": cfg, "E_rks": float(er), "E_uks": float(eu), "dE": float(er - eu),
                    "dv": float(max(np.max(np.abs(vu[0] - vr)), np.max(np.abs(vu[1] - vr)))), "ml_share": float(ml_share),
                    "E_swap_diff": float(e1 - e2)})


def _feat_data(rng, settings, nspin, n):
    """Normalised-feature-like array (nspin, nfeat, n): density-like positive entries for semilocal slots."""
    nf = settings.nfeat
    nsl = settings.sl_settings.nfeat
    X = rng.normal(size=(nspin, nf, n))
    X[:, :nsl] = np.exp(rng.uniform(np.log(1e-2), np.log(5.0), size=(nspin, nsl, n)))
    return X


def _model(case, rec, rng):
    from vlib import gen
    fam = str(rng.choice(["sl-npa", "sl-np", "vj-mgga", "sdmx", "vi-gga"]))
    mode = ["SEP", "NPOL", "POL"][case["idx"] % 3]
    ev = str(rng.choice(["rbf", "kernel", "linear"]))
    mul = str(rng.choice(["lda_x", "gga_x_pbe", "gga_x_chachiyo"]))
    cfg = dict(family=fam, mode=mode, evaluator=ev, mul_base=mul, model="xc1", nkernels=int(rng.integers(1, 3)))
    model = gen.build_model(cfg, rng)
    rec.tag("family", fam)
    rec.tag("mode", mode)
    rec.tag("evaluator", "spinrbf" if mode == "POL" else ev)
    rec.tag("mul_base", mul)
    n = 37
    X1 = _feat_data(rng, model.settings, 1, n)
    tagm = "%s,%s" % (mode, mul)
    # samples on both sides of the cutoff (all three modes cut on the total resp. per-channel density consistently)
    rc = 0.05
    X1[0, 0, ::5] = rc * np.exp(rng.uniform(np.log(0.1), np.log(0.95), size=X1[0, 0, ::5].shape))
    for rhocut in (0.0, rc):
        r1, d1 = model(X1.copy(), rhocut=rhocut)
        X2 = np.concatenate([X1, X1], axis=0)
        r2, d2 = model(X2.copy(), rhocut=rhocut)
        sc = max(float(np.max(np.abs(r1))), 1e-6)
        rec.check("model_nspin1_vs_2_energy", np.max(np.abs(r1 - r2)) / sc, TOL_M,
                  mechanism="MappedXC[%s]:nspin1!=nspin2:energy" % tagm)
        # d E / d X(total, nspin=1) = sum over channels of dE/dX_s; each channel derivative equal
        dsc = max(float(np.max(np.abs(d1))), 1e-6)
        rec.check("model_nspin1_vs_2_deriv", np.max(np.abs(d1[0] - (d2[0] + d2[1]))) / dsc, TOL_M,
                  mechanism="MappedXC[%s]:nspin1!=nspin2:derivative" % tagm)
        rec.check("model_channel_symmetry", np.max(np.abs(d2[0] - d2[1])) / dsc, TOL_M,
                  mechanism="MappedXC[%s]:channel-asymmetry" % tagm)
    # swap symmetry for genuinely polarised features
    Xa = _feat_data(rng, model.settings, 2, n)
    ra, da = model(Xa.copy())
    rb, db = model(Xa[::-1].copy())
    sc = max(float(np.max(np.abs(ra))), 1e-6)
    rec.check("model_swap_energy", np.max(np.abs(ra - rb)) / sc, TOL_M, mechanism="MappedXC[%s]:swap:energy" % tagm)
    rec.check("model_swap_deriv", np.max(np.abs(da - db[::-1])) / max(float(np.max(np.abs(da))), 1e-6), TOL_M,
              mechanism="MappedXC[%s]:swap:derivative" % tagm)
    if mode == "SEP":
        # separability at model level: E[Xa, Xb] = (E1[Xa] + E1[Xb]) / 2
        ea, _ = model(Xa[:1].copy())
        eb, _ = model(Xa[1:].copy())
        rec.check("model_separability", np.max(np.abs(ra - 0.5 * (ea + eb))) / sc, TOL_M,
                  mechanism="MappedXC[SEP,%s]:separability" % mul)
    # the same relations for a libxc-backed model (MappedXC2) incl. same-spin / opposite-spin baselines
    if mode != "POL" or True:
        from ciderpress.dft.plans import SemilocalPlan, get_rho_tuple_with_grad_cross
        mul2, add2 = [("GGA_X_PBE", None), ("GGA_C_PBE", "GGA_C_PBE"), ("OS_GGA_C_PBE", "SS_GGA_C_PBE"), ("MGGA_C_R2SCAN", "LDA_C_PW_MOD"),
                      ("SS_GGA_C_PBE", "OS_GGA_C_PBE")][case["idx"] % 5]
        if mode == "SEP":
            mul2, add2 = "GGA_X_PBE", None
        cfg2 = dict(family=str(rng.choice(["sl-npa", "sl-nst"])), mode=mode, evaluator=ev, model="xc2", mul_base=mul2, add_base=add2)
        m2 = gen.build_model(cfg2, rng)
        rho2 = gen.pointwise_rho(rng, n, nspin=2, lo=1e-2, hi=5.0)
        fs = m2.settings

        def call(rd):
            X = SemilocalPlan(fs.sl_settings, rd.shape[0]).get_feat(rd)
            XN = fs.normalizers.get_normalized_feature_vector(X)
            rtup = get_rho_tuple_with_grad_cross(rd, is_mgga=True)
            return m2(XN, rtup)
        r_ab, d_ab, v_ab = call(rho2)
        r_ba, d_ba, v_ba = call(np.ascontiguousarray(rho2[::-1]))
        sc2 = max(float(np.max(np.abs(r_ab))), 1e-9)
        rec.check("model2_swap_energy", float(np.max(np.abs(r_ab - r_ba))) / sc2, TOL_M, mechanism="MappedXC2[%s,%s]:swap:energy" % (mode, mul2))
        rec.check("model2_swap_deriv", float(np.max(np.abs(d_ab - d_ba[::-1]))) / max(float(np.max(np.abs(d_ab))), 1e-9), TOL_M,
                  mechanism="MappedXC2[%s,%s]:swap:derivative" % (mode, mul2))
        rec.check("model2_swap_vrho", float(np.max(np.abs(v_ab[0] - v_ba[0][::-1]))) / max(float(np.max(np.abs(v_ab[0]))), 1e-9), TOL_M,
                  mechanism="MappedXC2[%s,%s]:swap:vrho" % (mode, mul2))
        rec.check("model2_swap_vsigma", float(np.max(np.abs(v_ab[1] - v_ba[1][::-1]))) / max(float(np.max(np.abs(v_ab[1]))), 1e-9), TOL_M,
                  mechanism="MappedXC2[%s,%s]:swap:vsigma" % (mode, mul2))
        rec.tag("model2_baselines", "%s/%s" % (mul2, add2))
    if np.max(np.abs(ra)) > 1e-8:
        rec.nontrivial("%s|%s|%s|%s" % (fam, mode, ev, mul))
    rec.set_sample({"cfg": cfg, "max_energy_density": float(np.max(np.abs(ra)))})


def _layer(case, rec, rng):
    from ciderpress.dft import baselines as bl
    from ciderpress.dft import settings as st
    from ciderpress.dft.plans import SemilocalPlan

    from vlib import gen
    n = 41
    rho = gen.pointwise_rho(rng, n, nspin=2)
    tot = rho[0] + rho[1]
    # semilocal plan: nspin=1 on the total vs nspin=2 on two equal halves
    for mode in ("nst", "npa", "ns", "np"):
        s = st.SemilocalSettings(mode)
        p1 = SemilocalPlan(s, 1)
        p2 = SemilocalPlan(s, 2)
        half = np.stack([tot / 2, tot / 2])
        f1 = p1.get_feat(tot[None])
        f2 = p2.get_feat(half)
        rec.check("layer_slplan_feat[%s]" % mode, max(relerr(f1[0], f2[0]), relerr(f1[0], f2[1])), TOL_L,
                  mechanism="SemilocalPlan[%s]:nspin-feat" % mode)
        # spin-scaling: features of channel s equal nspin=1 features of 2*rho_s
        f2p = p2.get_feat(rho)
        for sp in range(2):
            f1s = p1.get_feat(2 * rho[sp][None])
            rec.check("layer_slplan_spinscale[%s]" % mode, relerr(f1s[0], f2p[sp]), TOL_L,
                      mechanism="SemilocalPlan[%s]:spin-scaling" % mode)
        # potentials: chain rule consistency between nspin conventions
        vfeat = rng.normal(size=f1.shape)
        v1 = p1.get_vxc(tot[None], vfeat)
        v2 = p2.get_vxc(half, np.concatenate([vfeat, vfeat]) * 0.5)
        # E = sum_s 1/2 e(X_s): dE/drho_s = 1/2 * de/dX * dX/drho_s, and d/drho = same for both channels
        rec.check("layer_slplan_vxc[%s]" % mode, max(relerr(v1[0], v2[0]), relerr(v1[0], v2[1])), TOL_L,
                  mechanism="SemilocalPlan[%s]:nspin-vxc" % mode)
        rec.nontrivial("slplan|" + mode)
    # exponent functions
    a0, gm, tm = float(rng.uniform(0.5, 3)), float(rng.uniform(0, 0.08)), float(rng.uniform(0, 0.05))
    r = tot[0]
    sig = np.sum(tot[1:4] ** 2, axis=0)
    tau = tot[4]
    e1 = st.get_cider_exponent(r, sig.copy(), tau.copy(), a0=a0, grad_mul=gm, tau_mul=tm, nspin=1)
    e2 = st.get_cider_exponent(r / 2, sig.copy() / 4, tau.copy() / 2, a0=a0, grad_mul=gm, tau_mul=tm, nspin=2)
    rec.check("layer_exponent_mgga", relerr(e1[0], e2[0]), TOL_L, mechanism="get_cider_exponent:nspin")
    # derivative consistency: a(rho) = a2(rho/2): da/drho = 0.5 da2/d(rho/2) etc.
    rec.check("layer_exponent_mgga_deriv", max(relerr(e1[1], 0.5 * e2[1]), relerr(e1[2], 0.25 * e2[2]),
                                               relerr(e1[3], 0.5 * e2[3])), TOL_L,
              mechanism="get_cider_exponent:nspin-derivative")
    g1 = st.get_cider_exponent_gga(r, sig.copy(), a0=a0, grad_mul=gm, nspin=1)
    g2 = st.get_cider_exponent_gga(r / 2, sig.copy() / 4, a0=a0, grad_mul=gm, nspin=2)
    rec.check("layer_exponent_gga", relerr(g1[0], g2[0]), TOL_L, mechanism="get_cider_exponent_gga:nspin")
    rec.check("layer_exponent_gga_deriv", max(relerr(g1[1], 0.5 * g2[1]), relerr(g1[2], 0.25 * g2[2])), TOL_L,
              mechanism="get_cider_exponent_gga:nspin-derivative")
    rec.nontrivial("exponent")
    # native baselines: polarised evaluation of equal channels equals unpolarised
    s = st.SemilocalSettings("npa")
    X1 = SemilocalPlan(s, 1).get_feat(tot[None])
    X2 = SemilocalPlan(s, 2).get_feat(np.stack([tot / 2, tot / 2]))
    for name in ("lda_x", "gga_x_pbe", "gga_x_chachiyo", "nlda_x_damp", "gga_c_pbe", "mgga_c_r2scan", "zero_xc", "one_xc"):
        f = getattr(bl, name)
        try:
            m1, d1 = f(X1)
            m2, d2 = f(X2)
        except Exception as e:  # baseline not applicable to this feature layout
            rec.tag("baseline_skipped", "%s:%s" % (name, type(e).__name__))
            continue
        rec.check("layer_baseline[%s]" % name, relerr(m1, m2), TOL, mechanism="%s:nspin" % name)
        rec.check("layer_baseline_deriv[%s]" % name, relerr(d1[0], d2[0] + d2[1]), TOL, mechanism="%s:nspin-derivative" % name)
        rec.tag("baseline", name)
    # libxc-backed baselines (incl. the same-spin / opposite-spin splits): channel-swap symmetry and polarised ==
    # unpolarised for equal channels, on genuinely spin-polarised pointwise data
    from ciderpress.dft.plans import get_rho_tuple_with_grad_cross
    rho2 = gen.pointwise_rho(rng, n, nspin=2, lo=1e-3, hi=10.0)
    rt = get_rho_tuple_with_grad_cross(rho2, is_mgga=True)
    rts = get_rho_tuple_with_grad_cross(np.ascontiguousarray(rho2[::-1]), is_mgga=True)
    half = np.stack([rho2[0] / 2 + rho2[1] / 2] * 2)
    rth = get_rho_tuple_with_grad_cross(half, is_mgga=True)
    rt1 = get_rho_tuple_with_grad_cross((2 * half[:1]), is_mgga=True)
    for code in ("LDA_X", "LDA_C_PW_MOD", "GGA_X_PBE", "GGA_C_PBE", "GGA_C_PBE_SOL", "MGGA_X_R2SCAN", "MGGA_C_R2SCAN",
                 "SS_GGA_C_PBE", "OS_GGA_C_PBE"):
        a = bl.get_libxc_baseline(code, tuple(x.copy(order="F") for x in rt))
        b = bl.get_libxc_baseline(code, tuple(x.copy(order="F") for x in rts))
        esc = max(float(np.max(np.abs(a[0]))), 1e-12)
        rec.check("layer_libxc_swap_energy[%s]" % code, float(np.max(np.abs(a[0] - b[0]))) / esc, TOL_L,
                  mechanism="get_libxc_baseline[%s]:spin-swap:energy" % code)
        vsc = max(float(np.max(np.abs(a[1]))), 1e-12)
        rec.check("layer_libxc_swap_vrho[%s]" % code, float(np.max(np.abs(a[1] - b[1][::-1]))) / vsc, TOL_L,
                  mechanism="get_libxc_baseline[%s]:spin-swap:vrho" % code)
        if len(a) > 2:
            ssc = max(float(np.max(np.abs(a[2]))), 1e-12)
            rec.check("layer_libxc_swap_vsigma[%s]" % code, float(np.max(np.abs(a[2] - b[2][::-1]))) / ssc, TOL_L,
                      mechanism="get_libxc_baseline[%s]:spin-swap:vsigma" % code)
        # equal channels through the polarised path vs the unpolarised path
        c2 = bl.get_libxc_baseline(code, tuple(x.copy(order="F") for x in rth))
        c1 = bl.get_libxc_baseline(code, tuple(x.copy(order="F") for x in rt1))
        rec.check("layer_libxc_pol_vs_unpol[%s]" % code, float(np.max(np.abs(c2[0] - c1[0]))) / max(float(np.max(np.abs(c1[0]))), 1e-12), TOL_L,
                  mechanism="get_libxc_baseline[%s]:polarised!=unpolarised" % code)
        rec.tag("libxc_baseline", code)
    rec.nontrivial("libxc-baselines")
    rec.set_sample({"a0": a0, "grad_mul": gm, "tau_mul": tm})
