"""C14 - saved models and feature lists reload to objects that evaluate identically.

Oracles (DESIGN.md section 5, C14):
 roundtrip_type     reloaded object has exactly the type of the original.
 roundtrip_value    evaluation of original and reloaded object on random inputs is equal element by element
                    (np.array_equal, NaN-aware) for values AND derivatives; workers run with one OpenMP / BLAS
                    thread so the C kernels are deterministic; the original is evaluated twice as a determinism guard.
 roundtrip_fields   as_dict()/to_dict() of the reloaded object equals that of the original; for whole models the
                    complete object state (recursive __dict__ walk, arrays by value) is equal.
 cycles             1-3 save/load cycles: every generation evaluates like the original; the YAML text of a
                    feature list is a fixed point after the first cycle.
 code_table         every class in ALL_CLASSES is registered in ALL_CLASS_DICT under the code its as_dict writes.
 negatives          unknown code, missing required field, unsupported extension / format string, mismatched
                    format, wrong object type in the file: an Exception must be raised.
Workload: enumeration of ALL_CLASSES / ALL_CLASS_DICT and of the XCEvalSerializable subclasses, random parameters.
"""
import os
import shutil
import tempfile
import types

import numpy as np

from vlib.oracles import rng_for

PROPERTY = "C14"
PROP_NO = 14
RULE = ("cases = (every class of ALL_CLASSES x random parameter / bounds / scalar-type draws through as_dict/from_dict and "
        "FeatureList.dump/load) + mixed FeatureLists + SplineSetEvaluator (random and map_tools-built spline data) + "
        "enumeration of XCEvalSerializable subclasses + whole MappedXC/MappedXC2 models (feature family x spin mode x "
        "evaluator kinds x kernels x baselines x number of kernels) through yaml/joblib by extension and by explicit "
        "format with 1-3 cycles + ElectronAnalyzer (RHF/UHF/RKS/UKS) dump/load; a sub-case is non-trivial when the "
        "original evaluates to finite, non-constant values with a non-zero derivative and repeats bitwise; distinct = "
        "distinct (class or composition, parameter digest, format, cycles)")
MIN_NONTRIVIAL = {"quick": 1500, "thorough": 12000}
ASSUMPTIONS = ["workers run with OMP_NUM_THREADS=OPENBLAS_NUM_THREADS=1; bitwise comparison is only made between runs of "
               "the same single-threaded computation (guarded by evaluating the original twice)",
               "files are written and read by the same library versions (cross-version pickles out of scope)",
               "evaluator classes whose to_dict/from_dict raise NotImplementedError do not declare dict serialisation; "
               "they are recorded, and covered through whole-model yaml/joblib round trips instead",
               "ElectronAnalyzer.perform_full_analysis is not called (sgx_tools is incompatible with the installed pyscf); "
               "stored data are produced by get_rho_data / get_xc_energy / calculate_vxc and ElectronAnalyzer.set"]

INDEX_NAMES = ("i", "j", "k", "l", "i_n", "i_s", "i_alpha")
TOL_RECOMPUTE = 1e-12  # relative; only for quantities recomputed by pyscf from a reloaded ElectronAnalyzer


# ---------------------------------------------------------------------------------------------
# generic helpers

def _tmpdir():
    base = "/var/tmp" if os.path.isdir("/var/tmp") and os.access("/var/tmp", os.W_OK) else tempfile.gettempdir()
    return tempfile.mkdtemp(prefix="c14_", dir=base)


def _same(a, b):
    """NaN-aware element-wise equality of two arrays (shape and values)."""
    a = np.asarray(a)
    b = np.asarray(b)
    if a.shape != b.shape:
        return False
    try:
        return bool(np.array_equal(a, b, equal_nan=True))
    except TypeError:
        return bool(np.array_equal(a, b))


def _dev(a, b):
    """0.0 if equal, else the largest absolute deviation (inf for shape / NaN-pattern mismatch)."""
    if _same(a, b):
        return 0.0
    a = np.asarray(a, dtype=float)
    b = np.asarray(b, dtype=float)
    if a.shape != b.shape:
        return float("inf")
    with np.errstate(all="ignore"):
        d = np.abs(a - b)
    d = d[np.isfinite(d)]
    m = float(d.max()) if d.size else 0.0
    return m if m > 0 else float("inf")


def _dev_list(xs, ys):
    if len(xs) != len(ys):
        return float("inf")
    return max([0.0] + [_dev(x, y) for x, y in zip(xs, ys)])


_ATOMS = (str, bytes, bool, int, float, complex, type(None))
_BYREF = (types.FunctionType, types.BuiltinFunctionType, types.ModuleType, type)


def _state_diff(a, b, path="", memo=None):
    """First difference between two object graphs (types, containers, arrays by value, objects by __dict__), or None."""
    if memo is None:
        memo = set()
    if a is b:
        return None
    key = (id(a), id(b))
    if key in memo:
        return None
    memo.add(key)
    if type(a) is not type(b):
        return "%s: type %s != %s" % (path, type(a).__name__, type(b).__name__)
    if isinstance(a, np.ndarray):
        if a.dtype != b.dtype or a.shape != b.shape:
            return "%s: array %s%s != %s%s" % (path, a.dtype, a.shape, b.dtype, b.shape)
        if a.dtype == object:
            for n, (x, y) in enumerate(zip(a.ravel(), b.ravel())):
                r = _state_diff(x, y, "%s[%d]" % (path, n), memo)
                if r:
                    return r
            return None
        return None if _same(a, b) else "%s: array values differ (max %.3e)" % (path, _dev(a, b))
    if isinstance(a, (np.generic,) + _ATOMS):
        if a == b or (a != a and b != b):
            return None
        return "%s: %r != %r" % (path, a, b)
    if isinstance(a, _BYREF):
        return "%s: %r is not %r" % (path, a, b)
    if isinstance(a, types.MethodType):
        return _state_diff(a.__func__, b.__func__, path + ".__func__", memo) or \
            _state_diff(a.__self__, b.__self__, path + ".__self__", memo)
    if isinstance(a, dict):
        if list(map(repr, sorted(a.keys(), key=repr))) != list(map(repr, sorted(b.keys(), key=repr))):
            return "%s: keys %s != %s" % (path, sorted(map(repr, a)), sorted(map(repr, b)))
        for k in a:
            r = _state_diff(a[k], b[k], "%s[%r]" % (path, k), memo)
            if r:
                return r
        return None
    if isinstance(a, (list, tuple)):
        if len(a) != len(b):
            return "%s: len %d != %d" % (path, len(a), len(b))
        for n, (x, y) in enumerate(zip(a, b)):
            r = _state_diff(x, y, "%s[%d]" % (path, n), memo)
            if r:
                return r
        return None
    if isinstance(a, (set, frozenset, slice, range)):
        return None if a == b else "%s: %r != %r" % (path, a, b)
    if hasattr(a, "__dict__"):
        return _state_diff(vars(a), vars(b), path + "." + type(a).__name__, memo)
    try:
        return None if a == b else "%s: %r != %r" % (path, a, b)
    except Exception as e:  # comparison itself failed
        return "%s: cannot compare (%s)" % (path, e)


def _must_raise(rec, name, fn, mechanism, detail=None):
    """Negative oracle: fn() must raise an Exception.  Returns the exception type name (or None)."""
    try:
        fn()
    except Exception as e:
        rec.require(name, True, mechanism=mechanism)
        rec.tag("negative_exception_type", "%s:%s" % (name, type(e).__name__))
        return type(e).__name__
    seen = rec.__dict__.setdefault("_c14_negatives_reported", set())
    if mechanism not in seen:  # one report per mechanism and case
        seen.add(mechanism)
        rec.require(name, False, mechanism=mechanism, detail=detail)
    return None


class _Once:
    """Report a failing mechanism once per case (keeps replay files small); successes are always counted."""

    def __init__(self, rec):
        self.rec = rec
        self.seen = set()

    def require(self, name, cond, mechanism, detail=None):
        if cond:
            return self.rec.require(name, True, mechanism=mechanism)
        if mechanism in self.seen:
            return False
        self.seen.add(mechanism)
        return self.rec.require(name, False, mechanism=mechanism, detail=detail)

    def check(self, name, obs, mechanism, detail=None):
        if obs == 0.0:
            return self.rec.check(name, 0.0, 0.0, mechanism=mechanism)
        if mechanism in self.seen:
            return False
        self.seen.add(mechanism)
        return self.rec.check(name, obs, 0.0, mechanism=mechanism, detail=detail)


# ---------------------------------------------------------------------------------------------
# feature maps

def _classes():
    from ciderpress.dft import transform_data as td
    return td.ALL_CLASSES


def _scalar(v, style):
    if style == "numpy":
        return np.float64(v)
    return float(v)


def _make_map(cls, rng, nraw, style="python", bounds_mode=None):
    """Random instance: distinct raw indices, non-special parameters, optional explicit bounds."""
    import inspect
    sig = inspect.signature(cls.__init__)
    names = [p for p in sig.parameters if p != "self"]
    idx_names = [n for n in names if n in INDEX_NAMES]
    idx = rng.choice(nraw, size=len(idx_names), replace=False)
    kw = {}
    for n, v in zip(idx_names, idx):
        kw[n] = np.int64(v) if style == "numpy" else int(v)
    for n in names:
        if n in kw:
            continue
        if n == "bounds":
            if bounds_mode is None:
                bounds_mode = ["default", "finite", "inf", "int"][int(rng.integers(4))]
            if bounds_mode == "finite":
                lo = float(rng.uniform(-2, 0.5))
                kw[n] = (_scalar(lo, style), _scalar(lo + float(rng.uniform(0.1, 3)), style))
            elif bounds_mode == "inf":
                kw[n] = (_scalar(rng.uniform(-2, 0), style), np.inf)
            elif bounds_mode == "int":
                kw[n] = (int(rng.integers(-3, 0)), int(rng.integers(1, 4)))
        elif n.startswith("gamma"):
            kw[n] = _scalar(np.exp(rng.uniform(np.log(0.05), np.log(5.0))), style)
        elif n == "scale":
            kw[n] = _scalar(rng.uniform(0.3, 3.0), style)
        elif n == "center":
            kw[n] = _scalar(rng.uniform(-1.0, 1.0), style)
        elif n in ("c", "B", "C"):
            kw[n] = _scalar(rng.uniform(0.2, 2.0), style)
        else:
            raise RuntimeError("unknown constructor argument %s.%s" % (cls.__name__, n))
    if style == "int" and "gamma" in kw:
        kw["gamma"] = int(rng.integers(1, 5))
    return cls(**kw), kw


def _map_inputs(rng, nraw, npts):
    """Raw feature matrix: positive log-uniform bulk, signed columns, plus a block of extreme points."""
    x = np.exp(rng.uniform(np.log(0.02), np.log(8.0), size=(nraw, npts)))
    sgn = rng.choice([-1.0, 1.0], size=(nraw, npts), p=[0.25, 0.75])
    x *= sgn
    ext = np.array([0.0, 1e-12, 1e-6, 1.0, 1e3, 1e10, -1e-3, -1.0])
    k = min(npts, ext.size)
    for r in range(nraw):
        x[r, :k] = rng.permutation(ext)[:k]
    return x


def _map_eval(m, x, w):
    """Value, derivative (accumulated on a fixed prefill) and bounds of a single map."""
    with np.errstate(all="ignore"):
        y = np.zeros(x.shape[1])
        m.fill_feat_(y, x.copy())
        dfdx = np.ones_like(x) * 0.125
        m.fill_deriv_(dfdx, w.copy(), x.copy())
    return y, dfdx


def _flist_eval(fl, x, w):
    with np.errstate(all="ignore"):
        t = np.zeros((fl.nfeat, x.shape[1]))
        fl.fill_vals_(t, x.copy())
        t2 = fl(x.T.copy())
        dfdx = np.ones_like(x) * 0.125
        fl.fill_derivs_(dfdx, w.copy(), x.copy())
    return [t, t2, dfdx]


def _jsonable_kw(kw):
    out = {}
    for k, v in kw.items():
        if isinstance(v, tuple):
            out[k] = [float(t) for t in v]
        elif isinstance(v, (np.integer, int)) and not isinstance(v, bool):
            out[k] = int(v)
        else:
            out[k] = float(v)
    return out


def _is_unregistered(exc):
    return isinstance(exc, ValueError) and "Unrecognized code" in str(exc)


def _registered(cls):
    """True when the code written by as_dict of an instance maps back to the class in ALL_CLASS_DICT."""
    from ciderpress.dft import transform_data as td
    m, _ = _make_map(cls, np.random.default_rng(0), 8)
    return td.ALL_CLASS_DICT.get(m.as_dict().get("code")) is cls


def _run_table(case, rec):
    """Consistency of the code table itself (enumeration of ALL_CLASS_DICT and ALL_CLASSES)."""
    from ciderpress.dft import transform_data as td
    rng = rng_for(case["seed"], PROP_NO, case["idx"])
    once = _Once(rec)
    rec.tag("n_registered_classes", len(td.ALL_CLASSES))
    rec.require("table_size", len(td.ALL_CLASS_DICT) == len(td.ALL_CLASSES), mechanism="ALL_CLASS_DICT:size-differs-from-ALL_CLASSES")
    for code, cls in td.ALL_CLASS_DICT.items():
        rec.tag("registered_code", "%s->%s" % (code, cls.__name__))
        m, kw = _make_map(cls, rng, 8)
        written = m.as_dict().get("code")
        once.require("code_table[key==written]", isinstance(code, str) and written == code,
                     "%s:code-not-registered" % cls.__name__,
                     detail={"registered_under": repr(code), "as_dict_writes": repr(written)})
        once.require("code_table[class_attr]", getattr(cls, "code", None) == written,
                     "%s:code-not-registered" % cls.__name__,
                     detail={"class_attr": repr(getattr(cls, "code", None)), "as_dict_writes": repr(written)})
    for cls in td.ALL_CLASSES:
        m, kw = _make_map(cls, rng, 8)
        written = m.as_dict().get("code")
        once.require("code_table[lookup]", td.ALL_CLASS_DICT.get(written) is cls, "%s:code-not-registered" % cls.__name__,
                     detail={"as_dict_writes": repr(written), "lookup": repr(td.ALL_CLASS_DICT.get(written))})
    # unknown codes are rejected by the dispatcher and by the file loader
    d = _tmpdir()
    try:
        for bad in ("QQ", "u", "Omega ", "", 17):
            _must_raise(rec, "unknown_code_dict", lambda: td.FeatureNormalizer.from_dict({"code": bad, "i": 0, "gamma": 1.0}),
                        "FeatureNormalizer.from_dict:accepts-unknown-code", detail={"code": repr(bad)})
            p = os.path.join(d, "bad.yaml")
            import yaml
            with open(p, "w") as f:
                yaml.dump({"feat_list": [{"code": "U", "i": 0, "gamma": 0.5}, {"code": bad, "i": 0, "gamma": 1.0}]}, f)
            _must_raise(rec, "unknown_code_file", lambda: td.FeatureList.load(p), "FeatureList.load:accepts-unknown-code",
                        detail={"code": repr(bad)})
        _must_raise(rec, "missing_code_key", lambda: td.FeatureNormalizer.from_dict({"i": 0, "gamma": 1.0}),
                    "FeatureNormalizer.from_dict:accepts-missing-code")
        for top in ([{"code": "U", "i": 0, "gamma": 0.5}], {"features": []}, "feat_list", None):
            p = os.path.join(d, "top.yaml")
            with open(p, "w") as f:
                yaml.dump(top, f)
            _must_raise(rec, "wrong_toplevel_file", lambda: td.FeatureList.load(p), "FeatureList.load:accepts-wrong-structure",
                        detail={"top": repr(top)[:80]})
    finally:
        shutil.rmtree(d, ignore_errors=True)
    rec.nontrivial("table")
    rec.set_sample({"codes": [repr(k) for k in td.ALL_CLASS_DICT], "n_classes": len(td.ALL_CLASSES)})


def _compare_maps(once, name, tagname, m, m2, x, w, ref, via):
    """All single-map oracles between an original m and a reloaded m2."""
    once.require("roundtrip_type[%s]" % via, type(m2) is type(m), "%s:roundtrip-type" % name,
                 detail={"got": type(m2).__name__, "via": via})
    d1, d2 = m.as_dict(), m2.as_dict()
    diff = _state_diff(d1, d2, "as_dict")
    once.require("roundtrip_fields[%s]" % via, diff is None, "%s:roundtrip-fields" % name, detail={"diff": diff, "via": via})
    once.require("roundtrip_bounds[%s]" % via, _state_diff(tuple(m.bounds), tuple(m2.bounds)) is None and m.num_arg == m2.num_arg,
                 "%s:roundtrip-bounds" % name, detail={"orig": repr(m.bounds), "reloaded": repr(m2.bounds), "via": via})
    y2, g2 = _map_eval(m2, x, w)
    once.check("roundtrip_value[%s]" % via, _dev(ref[0], y2), "%s:roundtrip-value" % name,
               detail={"via": via, "orig": d1 if tagname else None, "reloaded": repr(d2)[:300]})
    once.check("roundtrip_deriv[%s]" % via, _dev(ref[1], g2), "%s:roundtrip-deriv" % name, detail={"via": via})


def _run_map(case, rec):
    import yaml

    from ciderpress.dft import transform_data as td
    rng = rng_for(case["seed"], PROP_NO, case["idx"])
    cls = td.ALL_CLASSES[case["cls"]]
    name = cls.__name__
    rec.tag("map_class", name)
    once = _Once(rec)
    npts = 24
    d = _tmpdir()
    try:
        for dr in range(case["ndraw"]):
            style = ["python", "python", "numpy", "int"][dr % 4]
            nraw = int(rng.integers(5, 9))
            m, kw = _make_map(cls, rng, nraw, style=style)
            ncyc = 1 + dr % 3
            rec.tag("scalar_style", style)
            rec.tag("bounds", "explicit" if "bounds" in kw else "default")
            rec.tag("cycles", ncyc)
            x = _map_inputs(rng, nraw, npts)
            w = rng.normal(size=npts)
            ref = _map_eval(m, x, w)
            again = _map_eval(m, x, w)
            if _dev_list(ref, again) != 0.0:
                rec.note("nondeterministic_%s_%d" % (name, dr), True)
                continue
            dd = m.as_dict()
            registered = td.ALL_CLASS_DICT.get(dd.get("code")) is cls
            once.require("code_table[lookup]", registered, "%s:code-not-registered" % name,
                         detail={"as_dict_writes": repr(dd.get("code")), "class_code_attr": repr(getattr(cls, "code", None))})
            # (a) class-level from_dict (does not need the table)
            try:
                m2 = cls.from_dict(dict(dd))
            except Exception as e:
                once.require("from_dict_class", False, "%s:from_dict-raises" % name, detail={"exc": repr(e)[:300], "dict": repr(dd)})
                m2 = None
            if m2 is not None:
                _compare_maps(once, name, True, m, m2, x, w, ref, "cls.from_dict")
            # (b) dispatcher
            try:
                m3 = td.FeatureNormalizer.from_dict(dict(dd))
            except Exception as e:
                mech = "%s:code-not-registered" % name if (_is_unregistered(e) or not registered) else "%s:from_dict-raises" % name
                once.require("from_dict_dispatch", False, mech, detail={"exc": repr(e)[:300], "dict": repr(dd)})
                m3 = None
            if m3 is not None:
                _compare_maps(once, name, True, m, m3, x, w, ref, "FeatureNormalizer.from_dict")
            # (c) FeatureList.dump / load (YAML file), 1-3 cycles, text fixed point
            fl = td.FeatureList([m])
            cur = fl
            texts = []
            ok_file = True
            for c in range(ncyc):
                p = os.path.join(d, "fl_%d_%d.yaml" % (dr, c))
                try:
                    cur.dump(p)
                    texts.append(open(p).read())
                    cur = td.FeatureList.load(p)
                except Exception as e:
                    mech = "%s:code-not-registered" % name if (_is_unregistered(e) or not registered) else "%s:FeatureList.load-raises" % name
                    once.require("featurelist_file_roundtrip", False, mech, detail={"exc": repr(e)[:300], "cycle": c})
                    ok_file = False
                    break
                once.require("roundtrip_type[FeatureList]", type(cur) is td.FeatureList and cur.nfeat == 1,
                             "FeatureList:roundtrip-type")
                _compare_maps(once, name, True, m, cur[0], x, w, ref, "FeatureList.dump/load cycle %d" % (c + 1))
            if ok_file and len(texts) > 1:
                once.require("yaml_text_fixed_point", all(t == texts[0] for t in texts[1:]), "%s:yaml-text-not-fixed-point" % name)
            # dumping must not alter the original
            once.check("original_unchanged_by_dump", _dev_list(ref, _map_eval(m, x, w)), "%s:dump-modifies-original" % name)
            # (d) negatives: each required field missing
            for k in dd:
                if k in ("bounds", "code"):
                    continue
                d2 = {kk: vv for kk, vv in dd.items() if kk != k}
                _must_raise(rec, "missing_field", lambda: cls.from_dict(d2), "%s.from_dict:accepts-missing-field" % name,
                            detail={"field": k})
                if registered:
                    p = os.path.join(d, "neg.yaml")
                    with open(p, "w") as f:
                        yaml.dump({"feat_list": [d2]}, f)
                    _must_raise(rec, "missing_field_file", lambda: td.FeatureList.load(p),
                                "%s:FeatureList.load-accepts-missing-field" % name, detail={"field": k})
            finite = np.all(np.isfinite(ref[0][8:])) and np.ptp(ref[0]) > 0 and np.any(ref[1] != 0.125)
            if finite or name == "LMap":
                rec.nontrivial("%s|%s|%d" % (name, sorted(_jsonable_kw(kw).items()), ncyc))
            if rec.sample is None:
                rec.set_sample({"class": name, "kw": _jsonable_kw(kw), "as_dict": repr(dd), "cycles": ncyc,
                                "value_at_sample_points": ref[0][8:12].tolist(), "yaml": texts[0][:400] if texts else None})
    finally:
        shutil.rmtree(d, ignore_errors=True)


def _run_flist(case, rec):
    from ciderpress.dft import transform_data as td
    rng = rng_for(case["seed"], PROP_NO, case["idx"])
    once = _Once(rec)
    classes = td.ALL_CLASSES
    nraw = int(rng.integers(6, 10))
    npts = 24
    nmap = int(rng.integers(3, 11))
    allow_unreg = bool(case.get("with_unregistered"))
    maps, names, kws = [], [], []
    pool = [c for c in classes if allow_unreg or _registered(c)]
    while len(maps) < nmap:
        cls = pool[int(rng.integers(len(pool)))]
        m, kw = _make_map(cls, rng, nraw, style=["python", "numpy"][int(rng.integers(4) == 0)])
        maps.append(m)
        names.append(cls.__name__)
        kws.append(_jsonable_kw(kw))
    if allow_unreg:
        unreg = [c for c in classes if not _registered(c)]
        for c in unreg[:1]:
            m, kw = _make_map(c, rng, nraw)
            pos = int(rng.integers(len(maps) + 1))
            maps.insert(pos, m)
            names.insert(pos, c.__name__)
            kws.insert(pos, _jsonable_kw(kw))
    rec.tag("map_class", names)
    rec.tag("flist_len", len(maps))
    fl = td.FeatureList(maps)
    x = _map_inputs(rng, nraw, npts)
    w = rng.normal(size=(fl.nfeat, npts))
    ref = _flist_eval(fl, x, w)
    if _dev_list(ref, _flist_eval(fl, x, w)) != 0.0:
        rec.set_inconclusive("original FeatureList does not repeat bitwise")
        return
    ncyc = int(case["cycles"])
    rec.tag("cycles", ncyc)
    d = _tmpdir()
    try:
        # dict round trip
        try:
            fl2 = td.FeatureList.from_dict(fl.as_dict())
        except Exception as e:
            bad = [n for n, m in zip(names, maps) if td.ALL_CLASS_DICT.get(m.as_dict().get("code")) is not type(m)]
            mech = "%s:code-not-registered" % bad[0] if bad else "FeatureList.from_dict-raises"
            once.require("flist_dict_roundtrip", False, mech, detail={"exc": repr(e)[:300], "classes": names})
            fl2 = None
        if fl2 is not None:
            once.require("roundtrip_type[FeatureList]", type(fl2) is td.FeatureList and [type(a) for a in fl2.feat_list] == [type(a) for a in maps],
                         "FeatureList:roundtrip-type")
            once.require("roundtrip_fields[FeatureList]", _state_diff(fl.as_dict(), fl2.as_dict()) is None, "FeatureList:roundtrip-fields",
                         detail={"diff": _state_diff(fl.as_dict(), fl2.as_dict())})
            once.check("roundtrip_value[FeatureList.from_dict]", _dev_list(ref, _flist_eval(fl2, x, w)), "FeatureList:roundtrip-value",
                       detail={"classes": names})
        cur = fl
        texts = []
        done = 0
        for c in range(ncyc):
            p = os.path.join(d, "fl_%d.yaml" % c)
            try:
                cur.dump(p)
                texts.append(open(p).read())
                cur = td.FeatureList.load(p)
            except Exception as e:
                bad = [n for n, m in zip(names, maps) if td.ALL_CLASS_DICT.get(m.as_dict().get("code")) is not type(m)]
                mech = "%s:code-not-registered" % bad[0] if bad else "FeatureList.load-raises"
                once.require("featurelist_file_roundtrip", False, mech, detail={"exc": repr(e)[:300], "classes": names})
                break
            done += 1
            once.require("roundtrip_type[FeatureList]", type(cur) is td.FeatureList and [type(a) for a in cur.feat_list] == [type(a) for a in maps],
                         "FeatureList:roundtrip-type")
            once.require("roundtrip_fields[FeatureList]", _state_diff(fl.as_dict(), cur.as_dict()) is None, "FeatureList:roundtrip-fields",
                         detail={"diff": _state_diff(fl.as_dict(), cur.as_dict())})
            once.require("roundtrip_bounds[FeatureList]", _state_diff(list(fl.bounds_list), list(cur.bounds_list)) is None,
                         "FeatureList:roundtrip-bounds")
            once.check("roundtrip_value[FeatureList.dump/load]", _dev_list(ref, _flist_eval(cur, x, w)), "FeatureList:roundtrip-value",
                       detail={"classes": names, "cycle": c + 1})
        if len(texts) > 1 and done == ncyc:
            once.require("yaml_text_fixed_point", all(t == texts[0] for t in texts[1:]), "FeatureList:yaml-text-not-fixed-point")
        once.check("original_unchanged_by_dump", _dev_list(ref, _flist_eval(fl, x, w)), "FeatureList:dump-modifies-original")
        # one path rewritten with another list: every load returns what the file holds at that moment
        if done:
            fl_b = td.FeatureList(maps[::-1])
            w_b = np.ascontiguousarray(w[::-1])
            ref_b = _flist_eval(fl_b, x, w_b)
            p = os.path.join(d, "reused.yaml")
            for step, (obj, rf, ww) in enumerate([(fl, ref, w), (fl_b, ref_b, w_b), (fl, ref, w)]):
                try:
                    obj.dump(p)
                    got = td.FeatureList.load(p)
                    once.check("path_reuse_value[FeatureList]", _dev_list(rf, _flist_eval(got, x, ww)), "FeatureList.load:stale-after-rewrite",
                               detail={"step": step})
                except Exception as e:
                    once.require("path_reuse_loads[FeatureList]", False, "FeatureList.load:stale-or-failing-after-rewrite",
                                 detail={"exc": repr(e)[:300], "step": step})
                    break
        # negative: an evaluator file is not a feature list
        if done:
            import yaml
            p = os.path.join(d, "notflist.yaml")
            with open(p, "w") as f:
                yaml.dump({"scale": [1.0], "ind_sets": [[0]], "const": 0}, f)
            _must_raise(rec, "wrong_toplevel_file", lambda: td.FeatureList.load(p), "FeatureList.load:accepts-wrong-structure")
            if np.all(np.isfinite(ref[0][:, 8:])):
                rec.nontrivial("%s|%s|%d" % (names, kws, ncyc))
        rec.set_sample({"classes": names, "kws": kws, "cycles": ncyc, "yaml_head": texts[0][:300] if texts else None})
    finally:
        shutil.rmtree(d, ignore_errors=True)



# ---------------------------------------------------------------------------------------------
# evaluators

def _rand_spline_eval(rng, n1, maxdim=3, style="python"):
    """SplineSetEvaluator with random, valid spline data (grids from UCGrid, coefficients from filter_cubic or raw)."""
    from interpolation.splines import UCGrid, filter_cubic

    from ciderpress.dft import xc_evaluator as xe
    nterms = int(rng.integers(1, 5))
    scale, inds, grids, coefs, dims = [], [], [], [], []
    for t in range(nterms):
        nd = int(rng.integers(1, min(maxdim, n1) + 1))
        ind = rng.choice(n1, size=nd, replace=False).tolist()
        if rng.random() < 0.4:
            ind = sorted(ind)     # otherwise in drawn (generally non-ascending) order, as map_tools produces for
            #                       SubsetRBF([2]) * SubsetARBF([0, 1]): [2, 0], [2, 1], [2, 0, 1]
        if style == "numpy":
            ind = [np.int64(v) for v in ind]
        sizes = [int(rng.integers(4, 8 if nd < 4 else 6)) for _ in range(nd)]
        g = UCGrid(*[(float(rng.uniform(-1.5, -0.5)), float(rng.uniform(1.0, 2.0)), n) for n in sizes])
        if rng.random() < 0.6:
            c = filter_cubic(g, rng.normal(size=tuple(sizes)))
        else:
            c = rng.normal(size=tuple(n + 2 for n in sizes))
        scale.append(float(rng.uniform(0.2, 2.0)))
        inds.append(ind)
        grids.append(g)
        coefs.append(np.ascontiguousarray(c))
        dims.append(nd)
    if style == "numpy":
        scale = np.array(scale)
    const = [0, float(rng.normal()), float(rng.normal())][int(rng.integers(3))]
    return xe.SplineSetEvaluator(scale, inds, grids, coefs, const=const), dims


def _mapped_spline_eval(rng, n1, kind):
    """SplineSetEvaluator produced by the repository's own mapping path (map_tools)."""
    import contextlib
    import io

    from ciderpress.dft import transform_data as td
    from ciderpress.dft import xc_evaluator as xe
    from ciderpress.models.kernel_plans import kernel_tools as kt
    from ciderpress.models.kernel_plans import map_tools as mt
    ls = np.exp(rng.uniform(np.log(0.4), np.log(1.2), size=n1))
    X = rng.uniform(0.05, 0.95, size=(15, n1))
    alpha = rng.normal(size=15)
    fl = td.FeatureList([td.UMap(i, 0.5) for i in range(n1)])
    with contextlib.redirect_stdout(io.StringIO()):
        if kind == "simple":
            k = kt.get_rbf_kernel(slice(0, min(n1, 3), None), ls, scale=float(rng.uniform(0.5, 2)))
            args = mt.get_mapped_gp_evaluator_simple(k, X, alpha, fl, rbf_density=3, max_ngrid=9)
        else:
            if n1 >= 3 and rng.random() < 0.5:
                # single-RBF feature AFTER the additive ones: index sets [n1-1, i] are not ascending
                k = kt.get_agpr_kernel([n1 - 1], list(range(n1 - 1)), np.concatenate([ls[-1:], ls[:-1]]),
                                       scale=list(rng.uniform(0.1, 1.0, size=3)), order=2, nsingle=1)
            else:
                k = kt.get_agpr_kernel(slice(0, 1, None), slice(1, None, None), ls, scale=list(rng.uniform(0.1, 1.0, size=3)),
                                       order=2, nsingle=1)
            args = mt.get_mapped_gp_evaluator_additive(k, X, alpha, fl, srbf_density=3, arbf_density=3, max_ngrid=8)
    const = args[4] if len(args) > 4 else 0
    return xe.SplineSetEvaluator(args[0], args[1], args[2], args[3], const=const), [len(s) for s in args[1]]


def _feval(ev, X1):
    """Evaluate a FuncEvaluator on X1 (fresh accumulators and pre-filled accumulators)."""
    with np.errstate(all="ignore"):
        r, dr = ev(X1.copy())
        r2 = np.full(r.shape, 0.25)
        dr2 = np.full(dr.shape, -0.5)
        ev(X1.copy(), r2, dr2)
    return [np.array(r), np.array(dr), r2, dr2]


def _spline_roundtrips(rec, once, ev, X1, d, tagkey, ncyc):
    """dict and YAML-file round trips of one SplineSetEvaluator.  Returns True when everything reloaded."""
    from ciderpress.dft import xc_evaluator as xe
    name = "SplineSetEvaluator"
    ref = _feval(ev, X1)
    if _dev_list(ref, _feval(ev, X1)) != 0.0:
        rec.note("nondeterministic_spline", True)
        return False
    try:
        dd = ev.to_dict()
        ev2 = xe.SplineSetEvaluator.from_dict(dd)
    except Exception as e:
        once.require("spline_dict_roundtrip", False, "%s:to_dict/from_dict-raises" % name, detail={"exc": repr(e)[:300]})
        return False
    once.require("roundtrip_type[SplineSetEvaluator.from_dict]", type(ev2) is type(ev), "%s:roundtrip-type" % name)
    once.check("roundtrip_value[SplineSetEvaluator.from_dict]", _dev_list(ref, _feval(ev2, X1)), "%s:roundtrip-value" % name,
               detail={"via": "to_dict/from_dict"})
    diff = _state_diff(dd, ev2.to_dict(), "to_dict")
    once.require("roundtrip_fields[SplineSetEvaluator.from_dict]", diff is None, "%s:roundtrip-fields" % name, detail={"diff": diff})
    cur = ev
    for c in range(ncyc):
        p = os.path.join(d, "spl_%s_%d.yaml" % (tagkey, c))
        try:
            cur.dump(p)
            cur = xe.SplineSetEvaluator.load(p)
        except Exception as e:
            once.require("spline_file_roundtrip", False, "%s:dump/load-raises" % name, detail={"exc": repr(e)[:300], "cycle": c})
            return False
        once.require("roundtrip_type[SplineSetEvaluator.dump/load]", type(cur) is type(ev), "%s:roundtrip-type" % name)
        once.check("roundtrip_value[SplineSetEvaluator.dump/load]", _dev_list(ref, _feval(cur, X1)), "%s:roundtrip-value" % name,
                   detail={"via": "dump/load", "cycle": c + 1})
        diff = _state_diff(dd, cur.to_dict(), "to_dict")
        once.require("roundtrip_fields[SplineSetEvaluator.dump/load]", diff is None, "%s:roundtrip-fields" % name,
                     detail={"diff": diff, "cycle": c + 1})
    once.check("original_unchanged_by_dump", _dev_list(ref, _feval(ev, X1)), "%s:dump-modifies-original" % name)
    # negatives
    for k in list(dd):
        d2 = {kk: vv for kk, vv in dd.items() if kk != k}
        _must_raise(rec, "missing_field", lambda: xe.SplineSetEvaluator.from_dict(d2), "%s.from_dict:accepts-missing-field" % name,
                    detail={"field": k})
    d3 = dict(dd)
    d3["ind_sets"] = dd["ind_sets"][:-1] if len(dd["ind_sets"]) > 1 else []
    _must_raise(rec, "inconsistent_field_lengths", lambda: xe.SplineSetEvaluator.from_dict(d3),
                "%s.from_dict:accepts-inconsistent-lengths" % name)
    return bool(np.all(np.isfinite(ref[0])) and np.ptp(ref[0]) > 0 and np.any(ref[1] != 0))


def _run_spline(case, rec):
    import yaml

    from ciderpress.dft import transform_data as td
    from ciderpress.dft import xc_evaluator as xe
    rng = rng_for(case["seed"], PROP_NO, case["idx"])
    once = _Once(rec)
    maxdim = int(case.get("maxdim", 3))
    d = _tmpdir()
    try:
        for dr in range(case["ndraw"]):
            n1 = int(rng.integers(max(2, maxdim), 7))
            src = ["random", "random", "map_tools.simple", "map_tools.additive"][dr % 4] if maxdim <= 3 else "random"
            style = ["python", "numpy"][dr % 2]
            if src == "random":
                ev, dims = _rand_spline_eval(rng, n1, maxdim=maxdim, style=style)
            else:
                ev, dims = _mapped_spline_eval(rng, n1, src.split(".")[1])
            ncyc = 1 + dr % 3
            rec.tag("spline_source", src)
            rec.tag("spline_dims", sorted(set(dims)))
            rec.tag("scalar_style", style)
            rec.tag("cycles", ncyc)
            X1 = rng.uniform(-0.4, 0.95, size=(20, n1))
            X1[:3] = rng.uniform(-3, 3, size=(3, n1))  # outside the grids as well
            nt = _spline_roundtrips(rec, once, ev, X1, d, "r%d" % dr, ncyc)
            if nt:
                rec.nontrivial("spline|%s|%s|%d|%d" % (src, dims, dr, ncyc))
            if rec.sample is None:
                r0 = _feval(ev, X1)[0]
                rec.set_sample({"evaluator": "SplineSetEvaluator", "source": src, "dims": dims, "n1": n1, "cycles": ncyc,
                                "value_head": r0[:4].tolist()})
        # a file of another kind is not an evaluator
        p = os.path.join(d, "fl.yaml")
        td.FeatureList([td.UMap(0, 0.5)]).dump(p)
        _must_raise(rec, "wrong_toplevel_file", lambda: xe.SplineSetEvaluator.load(p), "SplineSetEvaluator.load:accepts-wrong-structure")
        p = os.path.join(d, "lst.yaml")
        with open(p, "w") as f:
            yaml.dump([1, 2, 3], f)
        _must_raise(rec, "wrong_toplevel_file", lambda: xe.SplineSetEvaluator.load(p), "SplineSetEvaluator.load:accepts-wrong-structure")
    finally:
        shutil.rmtree(d, ignore_errors=True)


def _all_subclasses(cls):
    out = []
    for s in cls.__subclasses__():
        if s not in out:
            out.append(s)
        for t in _all_subclasses(s):
            if t not in out:
                out.append(t)
    return out


def _rand_kernel(kind, n1, rng):
    from ciderpress.models import kernels as K
    from ciderpress.models.kernel_plans import kernel_tools as kt
    import contextlib
    import io
    ls = np.exp(rng.uniform(np.log(0.3), np.log(1.5), size=n1))
    c = float(rng.uniform(0.5, 2.0))
    if kind == "const*rbf":
        return K.DiffConstantKernel(c) * K.DiffRBF(ls)
    if kind == "rbf":
        return K.DiffRBF(ls)
    if kind == "subset-slice":
        return kt.get_rbf_kernel(slice(1 if n1 > 1 else 0, None, None), ls, scale=c)
    if kind == "subset-list":
        idx = sorted(rng.choice(n1, size=max(1, n1 - 1), replace=False).tolist())
        return kt.get_rbf_kernel(idx, ls, scale=c)
    if kind == "agpr":
        with contextlib.redirect_stdout(io.StringIO()):
            return kt.get_agpr_kernel(slice(0, 1, None), slice(1, None, None), ls, scale=list(rng.uniform(0.1, 1.0, size=3)),
                                      order=2, nsingle=1)
    if kind == "arbf":
        return K.DiffARBF(order=2, length_scale=ls, scale=list(rng.uniform(0.1, 1.0, size=3)))
    if kind == "poly":
        return K.DiffPolyKernel(gamma=float(rng.uniform(0.2, 1.0)), order=int(rng.integers(2, 5)))
    if kind == "sum":
        return K.DiffConstantKernel(c) * K.DiffRBF(ls) + K.DiffConstantKernel(0.2 * c) * K.DiffLinearKernel()
    if kind == "exp":
        return (K.DiffConstantKernel(c) * K.DiffRBF(ls)) ** 2
    raise ValueError(kind)


KERNEL_KINDS = ["const*rbf", "rbf", "subset-slice", "subset-list", "agpr", "arbf", "poly", "sum", "exp"]


def _rand_feval(spec, n1, rng, nctrl=10, amp=0.5):
    """FuncEvaluator from a spec 'rbf[:kernel]', 'kernel[:kernel]', 'linear', 'spinrbf', 'antisym', 'spline'."""
    from ciderpress.dft import xc_evaluator as xe
    from ciderpress.models import kernels as K
    kind, _, kk = spec.partition(":")
    ctrl = rng.uniform(-0.5, 1.0, size=(nctrl, n1))
    alpha = rng.normal(size=nctrl) * amp / np.sqrt(nctrl)
    if kind == "rbf":
        return xe.RBFEvaluator(_rand_kernel(kk or "const*rbf", n1, rng), ctrl, alpha)
    if kind == "kernel":
        return xe.KernelEvaluator(_rand_kernel(kk or "const*rbf", n1, rng), ctrl, alpha)
    if kind == "linear":
        return xe.GlobalLinearEvaluator(rng.normal(size=n1) * amp * 0.3)
    if kind == "spinrbf":
        ctrl2 = rng.uniform(-0.5, 1.0, size=(2, nctrl, n1))
        return xe.SpinRBFEvaluator(_rand_kernel("const*rbf", n1, rng), ctrl2, alpha)
    if kind == "antisym":
        ls = np.exp(rng.uniform(np.log(0.3), np.log(1.5), size=n1 - 1))
        k = K.DiffConstantKernel(float(rng.uniform(0.5, 2.0))) * K.DiffAntisymRBF(length_scale=ls)
        return xe.AntisymRBFEvaluator(k, ctrl, alpha)
    if kind == "spline":
        return _rand_spline_eval(rng, n1, maxdim=min(3, n1))[0]
    raise ValueError(spec)


def _run_evalenum(case, rec):
    """Enumerate XCEvalSerializable subclasses; round-trip those that declare dict serialisation."""
    from ciderpress.dft import transform_data as td
    from ciderpress.dft import xc_evaluator as xe
    from ciderpress.dft import xc_evaluator2 as xe2
    from ciderpress.dft import baselines as bl
    rng = rng_for(case["seed"], PROP_NO, case["idx"])
    once = _Once(rec)
    base = xe.XCEvalSerializable
    n1 = 4
    fl = td.FeatureList([td.UMap(i, 0.5) for i in range(n1)])
    builders = {
        "KernelEvaluator": lambda: _rand_feval("kernel", n1, rng),
        "RBFEvaluator": lambda: _rand_feval("rbf", n1, rng),
        "AntisymRBFEvaluator": lambda: _rand_feval("antisym", n1, rng),
        "SpinRBFEvaluator": lambda: _rand_feval("spinrbf", n1, rng),
        "SplineSetEvaluator": lambda: _rand_feval("spline", n1, rng),
        "GlobalLinearEvaluator": lambda: _rand_feval("linear", n1, rng),
        "MappedDFTKernel": lambda: xe.MappedDFTKernel([_rand_feval("spline", n1, rng)], fl, "SEP", bl.lda_x, bl.zero_xc),
        "MappedDFTKernel2": lambda: xe2.MappedDFTKernel2([_rand_feval("spline", n1, rng)], fl, "SEP", "LDA_X", None),
    }
    d = _tmpdir()
    try:
        subs = _all_subclasses(base)
        rec.tag("n_serializable_subclasses", len(subs))
        for cls in subs:
            name = cls.__name__
            own_to = cls.to_dict is not base.to_dict
            own_from = cls.from_dict.__func__ is not base.from_dict.__func__
            if not own_to and not own_from:
                rec.tag("evaluator_serialisation", "%s:not-declared(inherits NotImplementedError)" % name)
                # the inherited dump must refuse rather than write something
                b = builders.get(name)
                if b is not None:
                    try:
                        obj = b()
                    except Exception as e:
                        rec.note("cannot_build_%s" % name, repr(e)[:200])
                        continue
                    _must_raise(rec, "undeclared_dump_refuses", lambda: obj.dump(os.path.join(d, "x.yaml")),
                                "%s.dump:writes-without-to_dict" % name)
                continue
            b = builders.get(name)
            if b is None:
                rec.set_inconclusive("no generator for XCEvalSerializable subclass %s that overrides to_dict/from_dict" % name)
                rec.tag("evaluator_serialisation", "%s:declared-but-no-generator" % name)
                continue
            obj = b()
            try:
                dd = obj.to_dict()
                to_state = "ok"
            except NotImplementedError:
                dd, to_state = None, "NotImplementedError"
            except Exception as e:
                dd, to_state = None, "%s(%s)" % (type(e).__name__, str(e)[:120])
            from_state = None
            if dd is not None:
                try:
                    cls.from_dict(dd)
                    from_state = "ok"
                except NotImplementedError:
                    from_state = "NotImplementedError"
                except Exception as e:
                    from_state = "%s(%s)" % (type(e).__name__, str(e)[:120])
            else:
                try:
                    cls.from_dict({})
                    from_state = "ok"
                except NotImplementedError:
                    from_state = "NotImplementedError"
                except Exception as e:
                    from_state = "%s" % type(e).__name__
            rec.tag("evaluator_serialisation", "%s:to_dict=%s;from_dict=%s" % (name, to_state, from_state))
            if to_state == "ok" and from_state == "ok":
                if name == "SplineSetEvaluator":
                    X1 = rng.uniform(-0.4, 0.95, size=(20, n1))
                    if _spline_roundtrips(rec, once, obj, X1, d, "enum", 2):
                        rec.nontrivial("enum|%s" % name)
                else:
                    # a class that newly declares serialisation: generic oracle on __call__
                    obj2 = cls.from_dict(dd)
                    once.require("roundtrip_type[%s]" % name, type(obj2) is cls, "%s:roundtrip-type" % name)
                    diff = _state_diff(dd, obj2.to_dict(), "to_dict")
                    once.require("roundtrip_fields[%s]" % name, diff is None, "%s:roundtrip-fields" % name, detail={"diff": diff})
                    rec.nontrivial("enum|%s" % name)
            elif "NotImplementedError" in (to_state, from_state):
                pass  # recorded above: the class does not declare a dict round trip
            else:
                once.require("declared_roundtrip_runs[%s]" % name, False, "%s:to_dict/from_dict-raises" % name,
                             detail={"to_dict": to_state, "from_dict": from_state})
        rec.set_sample({"subclasses": [c.__name__ for c in subs], "tags": rec.tags.get("evaluator_serialisation")})
    finally:
        shutil.rmtree(d, ignore_errors=True)


# ---------------------------------------------------------------------------------------------
# whole models

XC1_MUL = ["lda_x", "gga_x_pbe", "gga_x_chachiyo", "one_xc", "nlda_x_damp"]
XC1_ADD = ["zero_xc", "zero_xc", "gga_c_pbe", "lda_x"]
XC2_X = ["LDA_X", "GGA_X_PBE", "GGA_X_PBE_SOL", "MGGA_X_R2SCAN"]
XC2_C = ["GGA_C_PBE", "LDA_C_PW_MOD", "GGA_C_PBE_SOL", "MGGA_C_R2SCAN", "OS_GGA_C_PBE", "SS_GGA_C_PBE"]
EVAL_SPECS = ["rbf", "rbf:rbf", "linear", "antisym", "rbf+linear", "kernel:const*rbf+rbf", "linear+linear"] + \
    ["kernel:" + k for k in KERNEL_KINDS]


def _model_cfgs(tier, rng):
    from vlib import gen
    # + SDMXFull settings whose ratio dict is written in ascending and in descending key order (YAML sorts mapping keys)
    fams = list(gen.FAMILIES) + ["sdmxfull-asc", "sdmxfull-desc"]
    n = 105 if tier == "quick" else 735
    cfgs = []
    for i in range(n):
        c = {"family": fams[i % len(fams)], "cls": "xc2" if (i // len(fams)) % 3 == 2 else "xc1"}
        nk = [1, 1, 2, 3][int(rng.integers(4))]
        ks = []
        for j in range(nk):
            mode = ["SEP", "NPOL", "POL"][(i + j) % 3]
            if mode == "POL":
                evs = "spinrbf"
            else:
                evs = EVAL_SPECS[(i // 3 + 5 * j) % len(EVAL_SPECS)]
            k = {"mode": mode, "evals": evs, "nmaps": int(rng.integers(2, 6))}
            if c["cls"] == "xc1":
                k["mul"] = XC1_MUL[int(rng.integers(len(XC1_MUL)))]
                k["add"] = XC1_ADD[int(rng.integers(len(XC1_ADD)))]
            else:
                pool = XC2_X if mode == "SEP" else XC2_C
                k["mul"] = pool[int(rng.integers(len(pool)))]
                k["add"] = None if rng.random() < 0.5 else pool[int(rng.integers(len(pool)))]
            ks.append(k)
        c["kernels"] = ks
        c["libxc_baseline"] = [None, None, "GGA_C_PBE", "0.25*HF"][int(rng.integers(4))]
        c["cycles"] = 1 + i % 3
        c["yaml_dumper"] = ["Dumper", "CDumper"][i % 2]
        c["joblib_compress"] = [0, 3][(i // 2) % 2]
        c["map_pool"] = ["simple", "all"][(i // 4) % 2]
        cfgs.append(c)
    return cfgs


def _model_feature_list(settings, rng, nmaps, pool):
    from ciderpress.dft import transform_data as td
    from vlib import gen
    if pool == "simple":
        return gen.rand_feature_list(settings, rng, nmax=nmaps)
    nf = settings.nfeat
    maps = []
    while len(maps) < nmaps:
        cls = td.ALL_CLASSES[int(rng.integers(len(td.ALL_CLASSES)))]
        try:
            m, _ = _make_map(cls, rng, nf)
        except ValueError:  # more index arguments than raw features
            continue
        maps.append(m)
    return td.FeatureList(maps)


def _build_model(cfg, rng):
    from ciderpress.dft import baselines as bl
    from ciderpress.dft import xc_evaluator as xe
    from ciderpress.dft import xc_evaluator2 as xe2
    from vlib import gen
    if cfg["family"].startswith("sdmxfull"):
        from ciderpress.dft import settings as cst
        blocks = [(1.0, ([0, 1], [2, 1, 0, 0])), (2.0, ([1, 0], [1, 0, 0, 0])), (1.5, ([0], [1, 1, 0, 0]))]
        if cfg["family"].endswith("desc"):
            blocks = [blocks[1], blocks[2], blocks[0]]
        st = gen.feature_settings("npa", None, cst.SDMXFullSettings(dict(blocks)))
    else:
        st = gen.family_settings(cfg["family"], rng)
    kernels = []
    for k in cfg["kernels"]:
        nmaps = max(2, k["nmaps"])
        fl = _model_feature_list(st, rng, nmaps, cfg.get("map_pool", "simple"))
        # AntisymRBFEvaluator antisymmetrises the first two transformed features: it needs at least two of them
        # (with one, the C kernel reads past the row; that is an admissibility matter, not a reload question)
        specs = [("rbf" if (s == "antisym" and fl.nfeat < 2) else s) for s in k["evals"].split("+")]
        fe = [_rand_feval(s, fl.nfeat, rng) for s in specs]
        if cfg["cls"] == "xc1":
            mul = k["mul"] if (k["mul"] != "nlda_x_damp" or st.nfeat >= 4) else "lda_x"
            kernels.append(xe.MappedDFTKernel(fe, fl, k["mode"], getattr(bl, mul), getattr(bl, k["add"])))
        else:
            kernels.append(xe2.MappedDFTKernel2(fe, fl, k["mode"], k["mul"], k["add"]))
    if cfg["cls"] == "xc1":
        return xe.MappedXC(kernels, st, libxc_baseline=cfg.get("libxc_baseline"))
    return xe2.MappedXC2(kernels, st, libxc_baseline=cfg.get("libxc_baseline"))


def _model_inputs(settings, rng, nspin, n):
    from ciderpress.dft.plans import SemilocalPlan
    from vlib import gen
    rho = gen.pointwise_rho(rng, n, nspin=nspin, lo=1e-4, hi=1e2)
    nf = settings.nfeat
    nsl = settings.sl_settings.nfeat
    X0T = np.empty((nspin, nf, n))
    X0T[:, :nsl] = SemilocalPlan(settings.sl_settings, nspin).get_feat(rho)
    X0T[:, nsl:] = np.abs(rng.normal(size=(nspin, nf - nsl, n))) * 2
    return rho, X0T


def _model_eval(model, rho, X0T, rhocut):
    """Everything a caller obtains from a model: normalised features, energy density, feature derivative,
    derivative w.r.t. raw features (through the model's own normaliser list) and, for MappedXC2, vrho_tuple."""
    from ciderpress.dft.plans import get_rho_tuple_with_grad_cross
    from ciderpress.dft.xc_evaluator import MappedXC
    st = model.settings
    with np.errstate(all="ignore"):
        X0TN = st.normalizers.get_normalized_feature_vector(X0T.copy())
        if isinstance(model, MappedXC):
            res, dres = model(X0TN.copy(), rhocut=rhocut)
            extra = []
        else:
            rt = get_rho_tuple_with_grad_cross(rho, is_mgga=True)
            res, dres, vt = model(X0TN.copy(), rt, rhocut=rhocut)
            extra = [np.array(v) for v in vt]
        v = st.normalizers.get_derivative_wrt_unnormed_features(X0T.copy(), np.array(dres))
        meta = [np.asarray(st.get_feat_usps(), dtype=float), np.asarray(st.get_feat_usps(with_normalizers=True), dtype=float),
                np.asarray(st.ueg_vector(0.7), dtype=float), np.asarray(st.ueg_vector(0.7, with_normalizers=True), dtype=float)]
    return [X0TN, np.array(res), np.array(dres), v] + extra + meta


def _dump_model(obj, path, fmt, cfg):
    import joblib
    import yaml
    if fmt == "yaml":
        with open(path, "w") as f:
            yaml.dump(obj, f, Dumper=getattr(yaml, cfg.get("yaml_dumper", "Dumper")))
    else:
        joblib.dump(obj, path, compress=cfg.get("joblib_compress", 0))


def _run_model(case, rec):
    from ciderpress.dft.model_utils import load_cider_model
    cfg = case["cfg"]
    rng = rng_for(case["seed"], PROP_NO, case["idx"])
    once = _Once(rec)
    model = _build_model(cfg, rng)
    cname = type(model).__name__
    rec.tag("model_class", cname)
    rec.tag("family", cfg["family"])
    rec.tag("nkernels", len(cfg["kernels"]))
    rec.tag("libxc_baseline_attr", str(cfg["libxc_baseline"]))
    rec.tag("map_pool", cfg["map_pool"])
    for k, mk in zip(cfg["kernels"], model.kernels):
        rec.tag("mode", k["mode"])
        rec.tag("evaluator", [type(f).__name__ for f in mk.fevals])
        rec.tag("evaluator_spec", k["evals"])
        rec.tag("baseline[%s]" % cfg["cls"], ["mul:%s" % k["mul"], "add:%s" % k["add"]])
        rec.tag("map_class", [type(m).__name__ for m in mk.feature_list.feat_list])
    _model_roundtrips(rec, once, model, cfg, rng, comp_key="%s|%s" % (case["id"], cname))
    _model_path_reuse(rec, once, model, cfg, rng, comp_key="%s|%s" % (case["id"], cname))


def _model_path_reuse(rec, once, model_a, cfg, rng, comp_key, npts=24):
    """History on ONE path: write A, load; overwrite with a different model B, load; overwrite with A, load - every load
    must give the model that is in the file at that moment (by file name and through make_cider_calc-style loading), in
    both formats.  Added after a seeded change (per-path memoisation of the YAML parse) went unnoticed."""
    from ciderpress.dft.model_utils import load_cider_model
    cname = type(model_a).__name__
    model_b = _build_model(cfg, rng)
    data = []
    for m in (model_a, model_b):
        try:
            rho, X0T = _model_inputs(m.settings, rng, 1, npts)
            ref = _model_eval(m, rho, X0T, 0)
        except Exception as e:
            rec.note("path_reuse_skipped", repr(e)[:200])
            return
        data.append((m, rho, X0T, ref))
    d = _tmpdir()
    try:
        for fmt in ("yaml", "joblib"):
            p = os.path.join(d, "reused." + fmt)
            seq = [0, 1, 0, 1]
            distinct = False
            okall = True
            for step, which in enumerate(seq):
                m, rho, X0T, ref = data[which]
                try:
                    _dump_model(m, p, fmt, cfg)
                    cur = load_cider_model(p, None if step % 2 == 0 else fmt)
                    out = _model_eval(cur, rho, X0T, 0)
                    dev = _dev_list(ref[:3], out[:3])
                except Exception as e:
                    once.require("path_reuse_loads[%s]" % fmt, False, "load_cider_model:%s:stale-or-failing-after-rewrite" % fmt,
                                 detail={"exc": repr(e)[:300], "step": step})
                    okall = False
                    break
                once.check("path_reuse_value[%s]" % fmt, dev, "load_cider_model:%s:stale-after-rewrite" % fmt,
                           detail={"step": step, "class": cname})
                if step == 1:
                    # non-triviality: the previous content of the path evaluates differently on these inputs
                    try:
                        prev = _model_eval(data[0][0], rho, X0T, 0)
                        distinct = _dev_list(ref[:3], prev[:3]) > 1e-8
                    except Exception:
                        distinct = True
            if okall and distinct:
                rec.nontrivial("%s|path-reuse|%s" % (comp_key, fmt))
    finally:
        shutil.rmtree(d, ignore_errors=True)


def _model_roundtrips(rec, once, model, cfg, rng, comp_key, npts=36):
    """All whole-model oracles (positive and negative) for one model object."""
    from ciderpress.dft.model_utils import load_cider_model
    cname = type(model).__name__
    # inputs and reference evaluations
    evals = []
    for nspin in (1, 2):
        rho, X0T = _model_inputs(model.settings, rng, nspin, npts)
        for rhocut in (0, float(np.exp(rng.uniform(np.log(1e-3), np.log(1.0))))):
            try:
                ref = _model_eval(model, rho, X0T, rhocut)
                again = _model_eval(model, rho, X0T, rhocut)
            except Exception as e:  # composition that the tree cannot evaluate at all: not a reload question
                rec.tag("composition_not_evaluable", "%s nspin=%d: %s" % (cname, nspin, type(e).__name__))
                rec.note("not_evaluable_%d" % nspin, repr(e)[:300])
                continue
            if _dev_list(ref, again) != 0.0:
                rec.note("nondeterministic_model_nspin%d" % nspin, True)
                continue
            evals.append((nspin, rhocut, rho, X0T, ref))
            rec.tag("eval_nspin", nspin)
    if not evals:
        rec.set_inconclusive("model could not be evaluated deterministically before saving")
        return
    ncyc = int(cfg.get("cycles", 1))
    rec.tag("cycles", ncyc)
    d = _tmpdir()
    try:
        good = {}
        for fmt in ("yaml", "joblib"):
            rec.tag("format", fmt)
            rec.tag("yaml_dumper" if fmt == "yaml" else "joblib_compress", cfg["yaml_dumper"] if fmt == "yaml" else cfg["joblib_compress"])
            for how in ("by-extension", "explicit-format", "explicit-format-foreign-extension"):
                rec.tag("format_selection", how)
                ext = {"by-extension": "." + fmt, "explicit-format": "." + fmt,
                       "explicit-format-foreign-extension": {"yaml": ".joblib", "joblib": ".dat"}[fmt]}[how]
                arg = None if how == "by-extension" else fmt
                cur = model
                ok = True
                for c in range(ncyc):
                    p = os.path.join(d, "m_%s_%s_%d%s" % (fmt, how[:3] + str(len(how)), c, ext))
                    try:
                        _dump_model(cur, p, fmt, cfg)
                    except Exception as e:
                        once.require("model_dump[%s]" % fmt, False, "%s:%s-dump-raises" % (cname, fmt), detail={"exc": repr(e)[:300]})
                        ok = False
                        break
                    try:
                        cur = load_cider_model(p, arg)
                    except Exception as e:
                        once.require("model_load[%s,%s]" % (fmt, how), False, "load_cider_model:%s:%s-raises" % (fmt, how),
                                     detail={"exc": repr(e)[:300], "class": cname})
                        ok = False
                        break
                    once.require("roundtrip_type[%s,%s]" % (cname, fmt), type(cur) is type(model), "%s:%s:roundtrip-type" % (cname, fmt),
                                 detail={"got": type(cur).__name__})
                    if type(cur) is not type(model):
                        ok = False
                        break
                    diff = _state_diff(model, cur, cname)
                    once.require("roundtrip_state[%s,%s]" % (cname, fmt), diff is None, "%s:%s:state-differs" % (cname, fmt),
                                 detail={"diff": diff, "cycle": c + 1})
                    for nspin, rhocut, rho, X0T, ref in evals:
                        try:
                            out = _model_eval(cur, rho, X0T, rhocut)
                        except Exception as e:
                            once.require("reloaded_model_evaluates[%s]" % fmt, False, "%s:%s:reloaded-model-raises" % (cname, fmt),
                                         detail={"exc": repr(e)[:300]})
                            ok = False
                            continue
                        once.check("roundtrip_value[%s,%s]" % (cname, fmt), _dev_list(ref[:2], out[:2]), "%s:%s:roundtrip-value" % (cname, fmt),
                                   detail={"nspin": nspin, "cycle": c + 1, "how": how})
                        once.check("roundtrip_deriv[%s,%s]" % (cname, fmt), _dev_list(ref[2:], out[2:]), "%s:%s:roundtrip-deriv" % (cname, fmt),
                                   detail={"nspin": nspin, "cycle": c + 1, "how": how})
                if ok:
                    good[fmt] = p
                    for nspin, rhocut, rho, X0T, ref in evals:
                        e = ref[1]
                        if np.all(np.isfinite(e)) and np.ptp(e) > 0 and np.all(np.isfinite(ref[2])) and np.any(ref[2] != 0):
                            rec.nontrivial("%s|%s|%s|nspin%d|cut%d|cyc%d" % (comp_key, fmt, how, nspin, int(rhocut > 0), ncyc))
        # the original must be unaffected by having been dumped
        for nspin, rhocut, rho, X0T, ref in evals:
            once.check("original_unchanged_by_dump", _dev_list(ref, _model_eval(model, rho, X0T, rhocut)), "%s:dump-modifies-original" % cname)
        # an object (not a path) is passed through untouched
        once.require("object_passthrough", load_cider_model(model, None) is model and load_cider_model(model, "yaml") is model,
                     "load_cider_model:object-not-passed-through")
        _model_negatives(rec, model, cfg, d, good)
        nspin, rhocut, rho, X0T, ref = evals[0]
        if rec.sample is None:
            rec.set_sample({"model": cname, "cfg": cfg, "cycles": ncyc, "exc_head": ref[1][:3].tolist(),
                            "file_bytes": {f: os.path.getsize(p) for f, p in good.items()}})
    finally:
        shutil.rmtree(d, ignore_errors=True)


def _model_negatives(rec, model, cfg, d, good):
    from ciderpress.dft.model_utils import load_cider_model
    # (a) unsupported extension with format None
    for fmt, p in good.items():
        for ext in (".yml", ".pkl", "", ".yaml.bak", ".YAML", ".json", ".joblib.gz"):
            q = os.path.join(d, "neg_ext_" + fmt + ext)
            shutil.copyfile(p, q)
            _must_raise(rec, "unsupported_extension", lambda: load_cider_model(q, None), "load_cider_model:accepts-unsupported-extension",
                        detail={"ext": ext, "content": fmt})
        # (b) unsupported explicit format string
        for bad in ("json", "pickle", "yml", "YAML", "Joblib", "", "hdf5", 0):
            _must_raise(rec, "unsupported_format_string", lambda: load_cider_model(p, bad), "load_cider_model:accepts-unsupported-format",
                        detail={"format": repr(bad), "content": fmt})
    # (c) mismatched explicit format
    if "yaml" in good:
        _must_raise(rec, "mismatched_format", lambda: load_cider_model(good["yaml"], "joblib"), "load_cider_model:yaml-file-read-as-joblib")
    if "joblib" in good:
        _must_raise(rec, "mismatched_format", lambda: load_cider_model(good["joblib"], "yaml"), "load_cider_model:joblib-file-read-as-yaml")
    # (d) wrong object type inside a well-formed file, and wrong in-memory object
    k0 = model.kernels[0]
    wrong = {"dict": {"kernels": [], "settings": None}, "list-of-model": [model], "FeatureList": k0.feature_list,
             "kernel": k0, "FeatureSettings": model.settings, "evaluator": k0.fevals[0], "str": "PBE", "none": None}
    for wname, obj in wrong.items():
        for fmt in ("yaml", "joblib"):
            q = os.path.join(d, "wrong_%s.%s" % (wname, fmt))
            try:
                _dump_model(obj, q, fmt, cfg)
            except Exception as e:
                rec.note("cannot_dump_wrong_%s_%s" % (wname, fmt), repr(e)[:100])
                continue
            for arg in (None, fmt):
                _must_raise(rec, "wrong_object_in_file", lambda: load_cider_model(q, arg), "load_cider_model:accepts-wrong-object-type",
                            detail={"object": wname, "format": fmt})
        if not isinstance(obj, str):
            _must_raise(rec, "wrong_object_in_memory", lambda: load_cider_model(obj, None), "load_cider_model:accepts-wrong-object-type",
                        detail={"object": wname})
    # (e) missing file
    _must_raise(rec, "missing_file", lambda: load_cider_model(os.path.join(d, "does_not_exist.yaml"), None), "load_cider_model:accepts-missing-file")


def _run_splinemodel(case, rec):
    """Whole models whose evaluator is a SplineSetEvaluator (numba path), grouped to pay the JIT load once."""
    from ciderpress.dft import baselines as bl
    from ciderpress.dft import xc_evaluator as xe
    from ciderpress.dft import xc_evaluator2 as xe2
    from vlib import gen
    rng = rng_for(case["seed"], PROP_NO, case["idx"])
    once = _Once(rec)
    for dr in range(case["ndraw"]):
        fam = ["sl-npa", "vj-mgga", "sdmx", "vi-gga"][dr % 4]
        st = gen.family_settings(fam, rng)
        fl = gen.rand_feature_list(st, rng, nmax=4)
        mode = ["SEP", "NPOL"][dr % 2]
        if dr % 3 == 0:
            ev = _mapped_spline_eval(rng, fl.nfeat, "simple")[0]
        else:
            ev = _rand_spline_eval(rng, fl.nfeat, maxdim=min(3, fl.nfeat))[0]
        fe = [ev] if dr % 2 else [ev, _rand_feval("rbf", fl.nfeat, rng)]
        if dr % 4 == 3:
            model = xe2.MappedXC2([xe2.MappedDFTKernel2(fe, fl, mode, "GGA_X_PBE" if mode == "SEP" else "GGA_C_PBE", None)], st)
        else:
            model = xe.MappedXC([xe.MappedDFTKernel(fe, fl, mode, bl.lda_x, bl.zero_xc)], st)
        cfg = {"cycles": 1 + dr % 3, "yaml_dumper": ["Dumper", "CDumper"][dr % 2], "joblib_compress": [0, 3][dr % 2],
               "family": fam, "mode": mode, "evaluator": [type(f).__name__ for f in fe]}
        rec.tag("model_class", type(model).__name__)
        rec.tag("family", fam)
        rec.tag("mode", mode)
        rec.tag("evaluator", cfg["evaluator"])
        _model_roundtrips(rec, once, model, cfg, rng, comp_key="%s|%d" % (case["id"], dr))


# ---------------------------------------------------------------------------------------------
# ElectronAnalyzer

def _value_diff(a, b, path=""):
    """Difference between stored-data values up to the scalar/str representation changes inherent to HDF5
    (python float <-> numpy float64, python str stays str): containers by structure, numbers by value."""
    if isinstance(a, dict) or isinstance(b, dict):
        if not (isinstance(a, dict) and isinstance(b, dict)) or sorted(map(str, a)) != sorted(map(str, b)):
            return "%s: dict keys differ" % path
        for k in a:
            r = _value_diff(a[k], b[k], "%s[%r]" % (path, k))
            if r:
                return r
        return None
    if isinstance(a, (list, tuple)) or isinstance(b, (list, tuple)):
        if not (isinstance(a, (list, tuple)) and isinstance(b, (list, tuple))) or len(a) != len(b):
            return "%s: sequence type/length differs (%s vs %s)" % (path, type(a).__name__, type(b).__name__)
        for n, (x, y) in enumerate(zip(a, b)):
            r = _value_diff(x, y, "%s[%d]" % (path, n))
            if r:
                return r
        return None
    if isinstance(a, (str, bytes)) or isinstance(b, (str, bytes)):
        return None if (type(a) is type(b) and a == b) else "%s: %r != %r" % (path, a, b)
    a = np.asarray(a)
    b = np.asarray(b)
    if a.shape != b.shape or a.dtype.kind != b.dtype.kind:
        return "%s: array %s%s != %s%s" % (path, a.dtype, a.shape, b.dtype, b.shape)
    return None if _same(a, b) else "%s: values differ (max %.3e)" % (path, _dev(a, b))


def _run_analyzer(case, rec):
    import contextlib
    import io

    from pyscf import dft, lib, scf

    from ciderpress.pyscf.analyzers import ElectronAnalyzer, RHFAnalyzer, UHFAnalyzer, recursive_remove_none
    from vlib import gen
    rng = rng_for(case["seed"], PROP_NO, case["idx"])
    once = _Once(rec)
    kind = case["calc"]
    rec.tag("analyzer_calc", kind)
    rec.tag("molecule", case["mol"])
    mol = gen.make_mol(case["mol"], "sto-3g", rng, jitter=0.03)
    mf = {"RHF": scf.RHF, "UHF": scf.UHF, "RKS": dft.RKS, "UKS": dft.UKS}[kind](mol)
    if kind.endswith("KS"):
        mf.xc = case.get("xc", "PBE")
        mf.grids.level = 0
    mf.max_cycle = 12
    mf.verbose = 0
    sink = io.StringIO()
    with contextlib.redirect_stdout(sink):
        mf.kernel()
        glevel = int(case.get("grids_level", 1))
        if case.get("from") == "dm":
            cls = UHFAnalyzer if kind[0] == "U" else RHFAnalyzer
            ana = cls(mol, np.asarray(mf.make_rdm1()), grids_level=glevel)
        else:
            ana = ElectronAnalyzer.from_calc(mf, grids_level=glevel)
        rec.tag("analyzer_source", case.get("from", "calc"))
        ana.get_rho_data()
        ana.get_xc_energy("LDA,VWN")
        ana.calculate_vxc("PBE")
        if kind[0] == "R" and ana.mo_coeff is not None:
            ana.calculate_vxc_on_mo("PBE")
        n = ana.grids.weights.size
        # data of the kinds the class itself stores in its range-separated / energy-density paths
        ana.set("omega_list", [float(rng.uniform(0.1, 1.0)), float(rng.uniform(1.0, 2.0))])
        shp = (2, n) if kind[0] == "U" else (n,)
        ana.set("ee_energy_density_rs", [rng.normal(size=shp), rng.normal(size=shp)])
        ana.set("ha_energy_density", rng.normal(size=n))
    cname = type(ana).__name__
    rec.tag("analyzer_class", cname)
    rec.tag("stored_keys", sorted(ana.keys()))

    def fresh(a):
        with contextlib.redirect_stdout(sink):
            r = a.get_rho_data(overwrite=True)
            e = a.get_xc_energy("GGA_X_B88")
        return [np.array(r), np.array(e)]
    rho_before = np.array(ana.get("rho_data"))
    d = _tmpdir()
    try:
        ncyc = int(case["cycles"])
        rec.tag("cycles", ncyc)
        cur = ana
        snapshot = {k: ana.get(k) for k in ana.keys()}
        for c in range(ncyc):
            p = os.path.join(d, "ana_%d.hdf5" % c)
            try:
                with contextlib.redirect_stdout(sink):
                    cur.dump(p)
                    cur = ElectronAnalyzer.load(p)
            except Exception as e:
                once.require("analyzer_roundtrip_runs", False, "%s:dump/load-raises" % cname, detail={"exc": repr(e)[:300], "cycle": c})
                return
            via = "cycle %d" % (c + 1)
            once.require("roundtrip_type[analyzer]", type(cur) is type(ana), "%s:roundtrip-type" % cname, detail={"got": type(cur).__name__})
            once.check("analyzer_rdm1", _dev(np.asarray(ana.rdm1), np.asarray(cur.rdm1)), "%s:roundtrip-rdm1" % cname, detail={"via": via})
            once.check("analyzer_grids", max(_dev(ana.grids.coords, cur.grids.coords), _dev(ana.grids.weights, cur.grids.weights)),
                       "%s:roundtrip-grids" % cname, detail={"via": via})
            once.require("analyzer_grids_level", int(cur.grids_level) == int(ana.grids_level) and int(cur.grids.level) == int(ana.grids.level),
                         "%s:roundtrip-grids-level" % cname)
            same_mol = (_same(ana.mol.atom_coords(), cur.mol.atom_coords()) and ana.mol.nelec == cur.mol.nelec and
                        ana.mol.spin == cur.mol.spin and ana.mol.charge == cur.mol.charge and ana.mol.nao_nr() == cur.mol.nao_nr() and
                        [ana.mol.atom_symbol(i) for i in range(ana.mol.natm)] == [cur.mol.atom_symbol(i) for i in range(cur.mol.natm)] and
                        _same(ana.mol._env, cur.mol._env) and _same(ana.mol._bas, cur.mol._bas))
            once.require("analyzer_mol", same_mol, "%s:roundtrip-mol" % cname)
            for k in ("mo_occ", "mo_coeff", "mo_energy"):
                a, b = getattr(ana, k), getattr(cur, k)
                okk = (a is None and b is None) or (a is not None and b is not None and _same(a, b))
                once.require("analyzer_mo_data", okk, "%s:roundtrip-%s" % (cname, k))
            once.require("analyzer_data_keys", sorted(cur.keys()) == sorted(snapshot), "%s:roundtrip-data-keys" % cname,
                         detail={"orig": sorted(snapshot), "reloaded": sorted(cur.keys())})
            for k, v in snapshot.items():
                if k in cur.keys():
                    diff = _value_diff(v, cur.get(k), k)
                    once.require("analyzer_data_values", diff is None, "%s:roundtrip-data[%s]" % (cname, type(v).__name__),
                                 detail={"key": k, "diff": diff})
        # evaluation on the reloaded object equals evaluation on the original (fresh computation on both)
        ref = fresh(ana)
        if _dev_list(ref, fresh(ana)) == 0.0:
            # not the same computation (the reloaded density matrix is a plain array without pyscf's mo_coeff tag, so
            # pyscf takes its eval_rho instead of eval_rho2 path): reassociation tolerance, measured floor 4e-15
            out = fresh(cur)
            worst = max(_dev(a, b) / max(1e-300, float(np.max(np.abs(a)))) for a, b in zip(ref, out))
            rec.check("analyzer_recomputed_equal", worst, TOL_RECOMPUTE, mechanism="%s:reloaded-recomputes-differently" % cname)
            once.check("analyzer_recompute_equals_stored", _dev(rho_before, ref[0]), "%s:recompute-differs-from-stored" % cname)
            rec.nontrivial("%s|%s|%s|%s|%d" % (cname, kind, case["mol"], case.get("from", "calc"), ncyc))
        else:
            rec.note("nondeterministic_analyzer", True)
        # negatives
        dd = recursive_remove_none(ana.as_dict())
        for bad in ("GHF", "ROHF", "rhf", ""):
            d2 = dict(dd)
            d2["atype"] = bad
            q = os.path.join(d, "bad_atype.hdf5")
            lib.chkfile.dump(q, "analyzer", d2)

            def load_bad():
                with contextlib.redirect_stdout(sink):
                    return ElectronAnalyzer.load(q)
            _must_raise(rec, "analyzer_unknown_atype", load_bad, "ElectronAnalyzer.load:accepts-unknown-atype", detail={"atype": bad})
        for miss in ("mol", "dm", "grids_level", "data"):
            d2 = {k: v for k, v in dd.items() if k != miss}

            def from_missing():
                with contextlib.redirect_stdout(sink):
                    return ElectronAnalyzer.from_dict(d2)
            _must_raise(rec, "analyzer_missing_field", from_missing, "ElectronAnalyzer.from_dict:accepts-missing-field", detail={"field": miss})
        rec.set_sample({"analyzer": cname, "calc": kind, "mol": case["mol"], "keys": sorted(snapshot), "ngrids": int(n),
                        "exc_lda": float(np.asarray(snapshot["xc"]["LDA,VWN"]))})
    finally:
        shutil.rmtree(d, ignore_errors=True)


# ---------------------------------------------------------------------------------------------
# case generation and dispatch

ANALYZER_SYSTEMS = [("RHF", "H2O"), ("UHF", "NH2"), ("RKS", "LiH"), ("UKS", "Li"), ("RHF", "HF"), ("UHF", "CH3"), ("RKS", "H2"),
                    ("UKS", "O2"), ("UHF", "H2O"), ("RKS", "NH3"), ("UKS", "NH2"), ("RHF", "He")]


def gen_cases(tier, seed):
    quick = tier == "quick"
    rng = rng_for(seed, PROP_NO, 0)
    cases = [{"id": "table", "kind": "table", "seed": seed, "idx": 1, "_threads": 1},
             {"id": "evalenum", "kind": "evalenum", "seed": seed, "idx": 2, "_threads": 1, "_weight": 6.0}]
    ncls = len(_classes())
    nb = 1 if quick else 3
    for ic in range(ncls):
        for b in range(nb):
            cases.append({"id": "map-%02d-b%d" % (ic, b), "kind": "map", "cls": ic, "ndraw": 12 if quick else 36,
                          "seed": seed, "idx": 100 + ic * 10 + b, "_threads": 1})
    nfl = 32 if quick else 240
    for i in range(nfl):
        cases.append({"id": "flist-%03d" % i, "kind": "flist", "seed": seed, "idx": 1000 + i, "cycles": 1 + i % 3,
                      "with_unregistered": i % 8 == 7, "_threads": 1})
    for i in range(2 if quick else 6):
        cases.append({"id": "spline-%d" % i, "kind": "spline", "seed": seed, "idx": 3000 + i, "ndraw": 8 if quick else 16,
                      "maxdim": 3, "_threads": 1, "_weight": 8.0})
    for i in range(1 if quick else 3):
        cases.append({"id": "splinemodel-%d" % i, "kind": "splinemodel", "seed": seed, "idx": 3100 + i, "ndraw": 4 if quick else 8,
                      "_threads": 1, "_weight": 8.0})
    if not quick:
        # 4-D splines: the first numba compilation of the 4-D kernel takes minutes on a cold cache
        cases.append({"id": "spline-4d", "kind": "spline", "seed": seed, "idx": 3200, "ndraw": 6, "maxdim": 4, "_threads": 1,
                      "_weight": 20.0, "_timeout": 1800})
    for i, cfg in enumerate(_model_cfgs(tier, rng)):
        cases.append({"id": "model-%03d-%s-%s" % (i, cfg["family"], cfg["cls"]), "kind": "model", "cfg": cfg, "seed": seed,
                      "idx": 4000 + i, "_threads": 1})
    na = 4 if quick else 12
    for i in range(na):
        calc, mol = ANALYZER_SYSTEMS[i % len(ANALYZER_SYSTEMS)]
        cases.append({"id": "analyzer-%02d-%s-%s" % (i, calc, mol), "kind": "analyzer", "calc": calc, "mol": mol, "seed": seed,
                      "idx": 9000 + i, "cycles": 1 + i % 2, "from": "dm" if i % 4 == 3 or i >= 8 and i % 2 else "calc",
                      "grids_level": i % 2, "_threads": 1, "_weight": 3.0})
    return cases


_RUNNERS = {"table": _run_table, "map": _run_map, "flist": _run_flist, "spline": _run_spline, "splinemodel": _run_splinemodel,
            "evalenum": _run_evalenum, "model": _run_model, "analyzer": _run_analyzer}


def run_case(case, rec):
    _RUNNERS[case["kind"]](case, rec)
