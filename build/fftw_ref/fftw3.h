/* Reference double of the part of the FFTW3 API used by ciderpress/lib/fft_wrapper/cider_fft.c.
 * NOT FFTW.  A direct (separable, O(N * sum n_i)) DFT that honours FFTW's documented
 * advanced-interface layout rules (rank, n, howmany, istride, idist, ostride, odist,
 * nembed == NULL incl. the in-place r2c/c2r padding rule).  See /verif/DESIGN.md section 2. */
#ifndef VERIF_FFTW3_REF_H
#define VERIF_FFTW3_REF_H
#include <stddef.h>
#ifdef __cplusplus
extern "C" {
#endif
typedef double fftw_complex[2];
typedef struct fftw_ref_plan_s *fftw_plan;
#define FFTW_FORWARD (-1)
#define FFTW_BACKWARD (+1)
#define FFTW_MEASURE (0U)
#define FFTW_DESTROY_INPUT (1U << 0)
#define FFTW_PRESERVE_INPUT (1U << 4)
#define FFTW_ESTIMATE (1U << 6)
int fftw_init_threads(void);
void fftw_plan_with_nthreads(int nthreads);
void fftw_cleanup_threads(void);
fftw_plan fftw_plan_many_dft(int rank, const int *n, int howmany, fftw_complex *in,
                             const int *inembed, int istride, int idist,
                             fftw_complex *out, const int *onembed, int ostride,
                             int odist, int sign, unsigned flags);
fftw_plan fftw_plan_many_dft_r2c(int rank, const int *n, int howmany, double *in,
                                 const int *inembed, int istride, int idist,
                                 fftw_complex *out, const int *onembed, int ostride,
                                 int odist, unsigned flags);
fftw_plan fftw_plan_many_dft_c2r(int rank, const int *n, int howmany, fftw_complex *in,
                                 const int *inembed, int istride, int idist,
                                 double *out, const int *onembed, int ostride,
                                 int odist, unsigned flags);
void fftw_execute(const fftw_plan p);
void fftw_destroy_plan(fftw_plan p);
void *fftw_malloc(size_t n);
void fftw_free(void *p);
/* counters for the evidence (not part of FFTW) */
long fftw_ref_counter(int which);
#ifdef __cplusplus
}
#endif
#endif
